#!/usr/bin/env python3
"""Maintenance helper (never run by a check): add or update one entry of known_findings.json.
usage: add_finding.py ID PROP STATUS CLASS SITE_REGEX WITNESS_SRC|- WHAT [COMMIT]"""
import json, shutil, sys, os
root = os.path.dirname(os.path.dirname(os.path.abspath(__file__)))
fid, prop, status, cls, site, src, what = sys.argv[1:8]
commit = sys.argv[8] if len(sys.argv) > 8 else None
kf = os.path.join(root, "known_findings.json")
k = json.load(open(kf))
ent = {"id": fid, "property": prop, "status": status}
if commit:
    ent["commit"] = commit
ent.update({"class": cls, "site_regex": site})
if src != "-":
    dst = os.path.join(root, "findings", fid + ".json")
    if os.path.abspath(src) != dst:
        shutil.copy(src, dst)
    ent["witness"] = "findings/%s.json" % fid
ent["what"] = what
if status == "fixed":
    ent["text"] = "fixed: property=%s %s %s" % (prop, commit, what)
k["findings"] = [e for e in k["findings"] if e["id"] != fid] + [ent]
json.dump(k, open(kf, "w"), indent=1)
print("recorded", fid)
