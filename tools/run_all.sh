#!/bin/bash
# usage: tools/run_all.sh [tier] [props...]   runs the registered checks one after the other and prints one line each
tier=${1:-quick}; shift
props=${@:-C01 C02 C03 C04 C05 C06 C07 C08 C09 C10 C11 C12 C13 C14 C15 C16 C17 C18 C19 C20 C21 C22 C23 C24 C25 C26 C27 C28 C29 C30}
mkdir -p /verif/out/runall
cd /verif
for p in $props; do
  ./run $p --tier $tier > /verif/out/runall/$p.$tier.seed${VERIF_SEED:-1}.log 2>&1; rc=$?
  echo "$p exit=$rc viol=$(grep -c '^VIOLATION' /verif/out/runall/$p.$tier.seed${VERIF_SEED:-1}.log) $(grep '^\[C' /verif/out/runall/$p.$tier.seed${VERIF_SEED:-1}.log | tail -1)"
done
