#!/bin/bash
# Starts every thorough command for a short time to make sure it is well-formed (a timeout is the expected outcome).
cd /verif
for p in "$@"; do
  timeout ${SMOKE_S:-45} ./run $p --tier thorough > /tmp/smoke_$p.log 2>&1; rc=$?
  echo "$p rc=$rc $(grep -c 'Traceback' /tmp/smoke_$p.log) tracebacks; $(tail -1 /tmp/smoke_$p.log | cut -c1-120)"
done
