#!/usr/bin/env python3
"""Starts every thorough command for a short time to make sure it is well-formed (being stopped is the expected outcome).
usage: smoke_thorough.py [seconds] [props...]"""
import os, signal, subprocess, sys, time
secs = int(sys.argv[1]) if len(sys.argv) > 1 else 45
props = sys.argv[2:] or ["C%02d" % i for i in range(1, 31)]
for p in props:
    log = "/tmp/smoke_%s.log" % p
    with open(log, "w") as f:
        proc = subprocess.Popen(["./run", p, "--tier", "thorough"], cwd="/verif", stdout=f, stderr=subprocess.STDOUT, start_new_session=True,
                                env=dict(os.environ, VERIF_EVIDENCE_DIR="/tmp/smoke_evidence", VERIF_OUT_DIR="/tmp/smoke_out"))
        try:
            rc = proc.wait(timeout=secs)
        except subprocess.TimeoutExpired:
            os.killpg(proc.pid, signal.SIGKILL)
            proc.wait()
            rc = "stopped"
    txt = open(log, errors="replace").read()
    print(p, "rc=%s" % rc, "tracebacks=%d" % txt.count("Traceback"), "violations=%d" % txt.count("VIOLATION"), flush=True)
