#!/bin/bash
# usage: tools/try_mutant.sh <seeded-id> <prop> [prop...]
# Applies seeded/<id>/patch.diff to a scratch worktree of /repo (NOT /repo itself), runs the quick checks against it with
# separate build/evidence/scratch directories, and reverts.  Runs independently of work going on in /repo and /verif/.build.
id=$1; shift
M=/var/tmp/verif-mut
WT=$M/repo
mkdir -p $M
cd /verif
exec 9>$M/lock; flock 9
head=$(git -C /repo rev-parse HEAD)
if [ ! -d $WT ]; then git -C /repo worktree add -q --detach $WT $head || exit 2; fi
git -C $WT checkout -q -- . ; git -C $WT checkout -q --detach $head || exit 2
git -C $WT apply /verif/seeded/$id/patch.diff || { echo "patch does not apply: $id"; exit 2; }
export VERIF_REPO=$WT VERIF_BUILD_ROOT=$M/build VERIF_EVIDENCE_DIR=$M/evidence VERIF_OUT_DIR=$M/out VERIF_SCRATCH=$M/scratch
mkdir -p /verif/out/mutants
for p in "$@"; do
  ( ./run $p --tier ${TIER:-quick} > /verif/out/mutants/$id-$p.log 2>&1; echo "exit=$?" >> /verif/out/mutants/$id-$p.log )
  echo "== $id vs $p: $(grep -c '^VIOLATION' /verif/out/mutants/$id-$p.log) violations, $(tail -1 /verif/out/mutants/$id-$p.log)"
  grep '^  \[' /verif/out/mutants/$id-$p.log | cut -c1-160 | head -6
done
git -C $WT checkout -q -- .
