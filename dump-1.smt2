(set-logic QF_LRA)
(declare-fun x () Real)
(declare-fun y () Real)
(assert
(let ((?def0 (not (<= 0 (+ (* (- 1) x) y)))))

?def0
))
(check-sat)
(exit)
