// C24 harness: independent solver instances in different threads.
// Usage: h_threads <seed> <rounds> <threads>
// Every round draws <threads> problems.  Each problem is solved alone (sequentially, main thread) and then all of them
// concurrently, one thread per problem, every thread creating its own logic, configuration and solver and building the
// terms inside the concurrent section.  Output:
//   MISMATCH <round> <thread> <family> | alone=<r> | concurrent=<r> [| truth=<r>]
//   STAT <name> <count>    DONE
// A result is "<status>[:model-ok|:model-bad]" or "exception:<text>".
// Families: 0 integer problems scaled by a ~2^72 factor (ground truth by brute force), 1 rational problems with big
// numerators/denominators, 2 uninterpreted functions, 3 small-number integer problems (control group).
#include <api/MainSolver.h>
#include <logics/ArithLogic.h>
#include <logics/Logic.h>
#include <models/Model.h>

#include <gmpxx.h>

#include <atomic>
#include <cstdio>
#include <cstdlib>
#include <map>
#include <random>
#include <string>
#include <thread>
#include <vector>

using namespace opensmt;

namespace {
constexpr int nVars = 3;
constexpr int bound = 5;

struct Spec {
    int family;
    unsigned seed;
    int slot;      // thread slot: makes the big factor differ between threads
};

std::string statusName(sstat s) {
    if (s == s_True) return "sat";
    if (s == s_False) return "unsat";
    if (s == s_Undef) return "unknown";
    return "error";
}

std::string withModel(MainSolver & solver, Logic & logic, std::vector<PTRef> const & assertions, sstat res) {
    std::string r = statusName(res);
    if (res != s_True) return r;
    auto model = solver.getModel();
    for (PTRef a : assertions) {
        if (model->evaluate(a) != logic.getTerm_true()) return r + ":model-bad";
    }
    return r + ":model-ok";
}

mpz_class bigFactor(Spec const & sp) {
    mpz_class B;
    mpz_ui_pow_ui(B.get_mpz_t(), 10, 21);
    return B * (3 + 2 * sp.slot) + 7 + sp.slot + (sp.seed % 1000);
}

// family 0 and 3: sum_j c_kj*B*v_j <= d_k*B + e_k (0 <= e_k < B), 2B x + 4B y + 6B z = pB, -bound <= v <= bound
struct Small {
    int c[3][nVars];
    int d[3];
    int p;
};

Small drawSmall(std::mt19937 & rng) {
    Small s;
    for (auto & row : s.c)
        for (int & v : row) v = int(rng() % 11) - 5;
    for (int & v : s.d) v = int(rng() % 9) - 4;
    s.p = int(rng() % 13) - 6;
    return s;
}

bool bruteForce(Small const & s) {
    int v[nVars];
    for (v[0] = -bound; v[0] <= bound; ++v[0])
        for (v[1] = -bound; v[1] <= bound; ++v[1])
            for (v[2] = -bound; v[2] <= bound; ++v[2]) {
                bool ok = 2 * v[0] + 4 * v[1] + 6 * v[2] == s.p;
                for (int k = 0; ok && k < 3; ++k) {
                    int sum = 0;
                    for (int j = 0; j < nVars; ++j) sum += s.c[k][j] * v[j];
                    ok = sum <= s.d[k];
                }
                if (ok) return true;
            }
    return false;
}

std::string solveInteger(Spec const & sp, bool big, std::string * truth) {
    std::mt19937 rng(sp.seed);
    Small s = drawSmall(rng);
    if (truth) *truth = bruteForce(s) ? "sat" : "unsat";
    mpz_class B = big ? bigFactor(sp) : mpz_class(1);
    ArithLogic logic{Logic_t::QF_LIA};
    SMTConfig config;
    config.setProduceModels();
    MainSolver solver(logic, config, "c24");
    auto num = [&](mpz_class const & z) { return logic.mkIntConst(Number(z.get_str().c_str())); };
    char const * names[nVars] = {"x", "y", "z"};
    PTRef vars[nVars];
    std::vector<PTRef> assertions;
    for (int j = 0; j < nVars; ++j) {
        vars[j] = logic.mkIntVar(names[j]);
        assertions.push_back(logic.mkLeq(logic.mkIntConst(Number(-bound)), vars[j]));
        assertions.push_back(logic.mkLeq(vars[j], logic.mkIntConst(Number(bound))));
    }
    for (int k = 0; k < 3; ++k) {
        vec<PTRef> sum;
        for (int j = 0; j < nVars; ++j) sum.push(logic.mkTimes(num(B * s.c[k][j]), vars[j]));
        mpz_class e = big ? B / (2 + rng() % 7) : mpz_class(0);
        assertions.push_back(logic.mkLeq(logic.mkPlus(std::move(sum)), num(B * s.d[k] + e)));
    }
    vec<PTRef> eq;
    for (int j = 0; j < nVars; ++j) eq.push(logic.mkTimes(num(B * (2 * (j + 1))), vars[j]));
    assertions.push_back(logic.mkEq(logic.mkPlus(std::move(eq)), num(B * s.p)));
    for (PTRef a : assertions) solver.addAssertion(a);
    sstat res = solver.check();
    return withModel(solver, logic, assertions, res);
}

std::string solveRational(Spec const & sp) {
    std::mt19937 rng(sp.seed);
    mpz_class B = bigFactor(sp);
    ArithLogic logic{Logic_t::QF_LRA};
    SMTConfig config;
    config.setProduceModels();
    MainSolver solver(logic, config, "c24");
    auto rat = [&](mpz_class const & n, mpz_class const & d) {
        mpq_class q(n, d);
        q.canonicalize();
        return logic.mkRealConst(Number(q.get_str().c_str()));
    };
    char const * names[4] = {"x", "y", "z", "w"};
    PTRef vars[4];
    std::vector<PTRef> assertions;
    for (int j = 0; j < 4; ++j) vars[j] = logic.mkRealVar(names[j]);
    int m = 4 + rng() % 4;
    for (int k = 0; k < m; ++k) {
        vec<PTRef> sum;
        for (int j = 0; j < 4; ++j) {
            int c = int(rng() % 9) - 4;
            if (c == 0) continue;
            sum.push(logic.mkTimes(rat(B * c + int(rng() % 5), mpz_class(3 + rng() % 11) * (B / 7 + k)), vars[j]));
        }
        if (sum.size() == 0) continue;
        PTRef lhs = logic.mkPlus(std::move(sum));
        PTRef rhs = rat(B * (int(rng() % 7) - 3) + 1, B / 3 + 1);
        switch (rng() % 3) {
            case 0: assertions.push_back(logic.mkLeq(lhs, rhs)); break;
            case 1: assertions.push_back(logic.mkGeq(lhs, rhs)); break;
            default: assertions.push_back(logic.mkLt(lhs, rhs)); break;
        }
    }
    if (rng() % 2) {
        // opposite strict bounds on one sum: unsat core through big rationals
        vec<PTRef> sum;
        sum.push(logic.mkTimes(rat(B + 1, B - 1), vars[0]));
        sum.push(logic.mkTimes(rat(-B, B + 3), vars[1]));
        PTRef lhs = logic.mkPlus(std::move(sum));
        assertions.push_back(logic.mkLt(lhs, rat(B, 7)));
        assertions.push_back(logic.mkGt(lhs, rat(B + (rng() % 3), 7)));
    }
    for (PTRef a : assertions) solver.addAssertion(a);
    sstat res = solver.check();
    return withModel(solver, logic, assertions, res);
}

std::string solveUF(Spec const & sp) {
    std::mt19937 rng(sp.seed);
    Logic logic{Logic_t::QF_UF};
    SMTConfig config;
    config.setProduceModels();
    MainSolver solver(logic, config, "c24");
    SRef U = logic.declareUninterpretedSort("U");
    SymRef f = logic.declareFun("f", U, {U});
    SymRef g = logic.declareFun("g", U, {U, U});
    std::vector<PTRef> terms;
    for (int i = 0; i < 5; ++i) terms.push_back(logic.mkVar(U, ("c" + std::to_string(i)).c_str()));
    for (int i = 0; i < 12; ++i) {
        if (rng() % 2) terms.push_back(logic.mkUninterpFun(f, {terms[rng() % terms.size()]}));
        else terms.push_back(logic.mkUninterpFun(g, {terms[rng() % terms.size()], terms[rng() % terms.size()]}));
    }
    std::vector<PTRef> assertions;
    int m = 8 + rng() % 8;
    for (int k = 0; k < m; ++k) {
        PTRef a = terms[rng() % terms.size()], b = terms[rng() % terms.size()];
        PTRef eq = logic.mkEq(a, b);
        PTRef lit = rng() % 3 == 0 ? logic.mkNot(eq) : eq;
        if (rng() % 3 == 0) {
            PTRef eq2 = logic.mkEq(terms[rng() % terms.size()], terms[rng() % terms.size()]);
            lit = logic.mkOr(lit, rng() % 2 ? logic.mkNot(eq2) : eq2);
        }
        assertions.push_back(lit);
    }
    for (PTRef a : assertions) solver.addAssertion(a);
    sstat res = solver.check();
    return withModel(solver, logic, assertions, res);
}

// family 4: the arbitrary-precision kernels themselves (gcd, lcm, floor, ceil, floor division, exact division, + - * /)
std::string numberKernel(Spec const & sp) {
    std::mt19937_64 rng(sp.seed);
    auto big = [&](int limbs) {
        std::string s = std::to_string(1 + rng() % 9);
        for (int i = 0; i < limbs * 9; ++i) s += std::to_string(rng() % 10);
        return FastRational(s.c_str());
    };
    std::size_t hash = 1469598103934665603ull;
    auto mix = [&](FastRational const & r) {
        for (char c : r.get_str()) { hash = (hash ^ static_cast<unsigned char>(c)) * 1099511628211ull; }
    };
    for (int it = 0; it < 1500; ++it) {
        FastRational a = big(2 + int(rng() % 3)), b = big(2 + int(rng() % 2));
        if (rng() % 2) a = -a;
        FastRational g = gcd(a, b);
        mix(g);
        mix(lcm(a, b));
        mix(fastrat_fdiv_q(a, b));
        mix(divexact(a * b, b));
        FastRational q = a / b;
        mix(q.floor());
        mix(q.ceil());
        mix(q + g - a * FastRational(3));
    }
    return "hash:" + std::to_string(hash);
}

std::string solve(Spec const & sp, std::string * truth) {
    try {
        switch (sp.family) {
            case 4: return numberKernel(sp);
            case 0: return solveInteger(sp, true, truth);
            case 1: return solveRational(sp);
            case 2: return solveUF(sp);
            default: return solveInteger(sp, false, truth);
        }
    } catch (std::exception const & e) {
        return std::string("exception:") + e.what();
    } catch (...) {
        return "exception:unknown";
    }
}
} // namespace

int main(int argc, char ** argv) {
    unsigned seed = argc > 1 ? std::atoi(argv[1]) : 1;
    int rounds = argc > 2 ? std::atoi(argv[2]) : 10;
    int threads = argc > 3 ? std::atoi(argv[3]) : 4;
    std::mt19937 rng(seed);
    std::map<std::string, long> stat;
    for (int r = 0; r < rounds; ++r) {
        std::vector<Spec> specs;
        for (int t = 0; t < threads; ++t) {
            unsigned k = rng() % 12;
            int family = k < 5 ? 0 : k < 7 ? 1 : k < 9 ? 2 : k < 10 ? 3 : 4;
            specs.push_back({family, static_cast<unsigned>(rng()), t});
        }
        std::vector<std::string> alone(threads), conc(threads), truth(threads);
        for (int t = 0; t < threads; ++t) alone[t] = solve(specs[t], &truth[t]);
        std::atomic<int> ready{0};
        std::vector<std::thread> pool;
        for (int t = 0; t < threads; ++t) {
            pool.emplace_back([&, t] {
                ready.fetch_add(1);
                while (ready.load() < threads) { std::this_thread::yield(); }     // start together
                conc[t] = solve(specs[t], nullptr);
            });
        }
        for (auto & th : pool) th.join();
        for (int t = 0; t < threads; ++t) {
            stat["instances"]++;
            stat["family_" + std::to_string(specs[t].family)]++;
            stat["alone_" + (specs[t].family == 4 ? std::string("kernel") : alone[t].substr(0, alone[t].find(':')))]++;
            bool bad = conc[t] != alone[t] or alone[t].find("model-bad") != std::string::npos or
                       alone[t].rfind("exception", 0) == 0;
            if (not truth[t].empty() and alone[t].rfind(truth[t], 0) != 0) bad = true;
            if (bad) {
                std::printf("MISMATCH %d %d %d | alone=%s | concurrent=%s | truth=%s | seed=%u\n", r, t, specs[t].family,
                            alone[t].c_str(), conc[t].c_str(), truth[t].c_str(), specs[t].seed);
            } else {
                stat["agree"]++;
            }
        }
    }
    for (auto const & kv : stat) std::printf("STAT %s %ld\n", kv.first.c_str(), kv.second);
    std::printf("DONE\n");
    return 0;
}
