// C22 harness: random assert / check / backtrack walks on one theory solver, driven the way TSolverHandler drives it
// (every trail literal: pushBacktrackPoint + assertLit; backtracking pops that many points; deductions are drained after
// a consistent check and asserted like any other trail literal).
// Usage: h_tsolver <seed> <walks> <lra|lia|uf|idl|rdl>
// Output:
//   DECL <smtlib declaration>
//   V <walk> <step> <assert|check0|check1> <SAT|UNSAT|UNKNOWN> <complete:0|1> | <lit> ; <lit> ...   verdict on the literal set
//   D <walk> <step> | <deduced literal> | <lit> ; ...                                               deduction from the set
//   H <walk> <step> history=<v> fresh=<v> | <lit> ; ...     a fresh solver given the same set answers differently
//   C <walk> <step> | <conflict literal not in the set> | <lit> ; ...
//   X <walk> <step> | <exception text>
//   STAT <name> <count>    DONE
#include <logics/ArithLogic.h>
#include <logics/Logic.h>
#include <options/SMTConfig.h>
#include <tsolvers/egraph/Egraph.h>
#include <tsolvers/lasolver/LASolver.h>
#include <tsolvers/stpsolver/IDLSolver.h>
#include <tsolvers/stpsolver/RDLSolver.h>

#include <cstdio>
#include <map>
#include <memory>
#include <random>
#include <string>
#include <vector>

using namespace opensmt;

namespace {
std::mt19937_64 rng;
size_t rnd(size_t n) { return rng() % n; }
std::map<std::string, long> stat;

struct World {
    std::unique_ptr<Logic> logic;
    SMTConfig config;
    std::unique_ptr<TSolver> solver;
};

char const * verdictName(TRes r) { return r == TRes::SAT ? "SAT" : r == TRes::UNSAT ? "UNSAT" : "UNKNOWN"; }

std::unique_ptr<World> makeWorld(std::string const & theory) {
    auto w = std::make_unique<World>();
    if (theory == "lra") { w->logic = std::make_unique<ArithLogic>(Logic_t::QF_LRA); }
    else if (theory == "lia") { w->logic = std::make_unique<ArithLogic>(Logic_t::QF_LIA); }
    else if (theory == "idl") { w->logic = std::make_unique<ArithLogic>(Logic_t::QF_IDL); }
    else if (theory == "rdl") { w->logic = std::make_unique<ArithLogic>(Logic_t::QF_RDL); }
    else { w->logic = std::make_unique<Logic>(Logic_t::QF_UF); }
    if (theory == "lra" or theory == "lia") { w->solver = std::make_unique<LASolver>(w->config, dynamic_cast<ArithLogic &>(*w->logic)); }
    else if (theory == "idl") { w->solver = std::make_unique<IDLSolver>(w->config, dynamic_cast<ArithLogic &>(*w->logic)); }
    else if (theory == "rdl") { w->solver = std::make_unique<RDLSolver>(w->config, dynamic_cast<ArithLogic &>(*w->logic)); }
    else { w->solver = std::make_unique<Egraph>(w->config, *w->logic); }
    return w;
}

// The atom pool is a function of (theory, poolSeed) only, so that a fresh world can rebuild exactly the same atoms
std::vector<PTRef> makeAtoms(World & w, std::string const & theory, unsigned poolSeed, bool printDecls) {
    std::mt19937_64 prng(poolSeed);
    auto prnd = [&](size_t n) { return size_t(prng() % n); };
    std::vector<PTRef> atoms;
    Logic & logic = *w.logic;
    auto addAtom = [&](PTRef a) {
        if (logic.isNot(a)) a = logic.getPterm(a)[0];
        if (a == logic.getTerm_true() or a == logic.getTerm_false()) return;
        if (not w.solver->isValid(a)) return;
        for (PTRef b : atoms) if (a == b) return;
        atoms.push_back(a);
    };
    if (theory == "uf") {
        SRef U = logic.declareUninterpretedSort("U");
        SymRef f = logic.declareFun("f", U, {U});
        SymRef g = logic.declareFun("g", U, {U, U});
        SymRef p = logic.declareFun("p", logic.getSort_bool(), {U});
        if (printDecls) {
            std::printf("DECL (declare-sort U 0)\nDECL (declare-fun f (U) U)\nDECL (declare-fun g (U U) U)\nDECL (declare-fun p (U) Bool)\n");
        }
        std::vector<PTRef> terms;
        for (int i = 0; i < 4; ++i) {
            std::string n = "c" + std::to_string(i);
            terms.push_back(logic.mkVar(U, n.c_str()));
            if (printDecls) std::printf("DECL (declare-fun %s () U)\n", n.c_str());
        }
        int extra = 4 + prnd(5);
        for (int i = 0; i < extra; ++i) {
            if (prnd(3)) terms.push_back(logic.mkUninterpFun(f, {terms[prnd(terms.size())]}));
            else terms.push_back(logic.mkUninterpFun(g, {terms[prnd(terms.size())], terms[prnd(terms.size())]}));
        }
        int n = 8 + prnd(9);
        for (int i = 0; i < n * 3 and int(atoms.size()) < n; ++i) {
            if (prnd(5) == 0) addAtom(logic.mkUninterpFun(p, {terms[prnd(terms.size())]}));
            else addAtom(logic.mkEq(terms[prnd(terms.size())], terms[prnd(terms.size())]));
        }
        return atoms;
    }
    ArithLogic & al = dynamic_cast<ArithLogic &>(logic);
    bool isInt = theory == "lia" or theory == "idl";
    std::vector<PTRef> vars;
    int nv = 3 + prnd(2);
    if (printDecls) { for (int i = 0; i < 4; ++i) std::printf("DECL (declare-fun v%d () %s)\n", i, isInt ? "Int" : "Real"); }
    for (int i = 0; i < nv; ++i) {
        std::string n = "v" + std::to_string(i);
        vars.push_back(isInt ? al.mkIntVar(n.c_str()) : al.mkRealVar(n.c_str()));
        (void)printDecls;
    }
    auto constant = [&](bool allowHuge) {
        static char const * huge[] = {"2147483647", "2147483648", "-2147483649", "4294967296", "9007199254740993", "-9223372036854775808",
                                      "9223372036854775807", "4611686018427387904", "-4611686018427387905"};
        std::string s;
        if (allowHuge and prnd(6) == 0) s = huge[prnd(sizeof(huge) / sizeof(huge[0]))];
        else s = std::to_string(int(prnd(13)) - 6);
        if (not isInt and prnd(4) == 0) s += "/" + std::to_string(2 + prnd(3));
        return isInt ? al.mkIntConst(Number(s.c_str())) : al.mkRealConst(Number(s.c_str()));
    };
    int n = 8 + prnd(9);
    for (int i = 0; i < n * 3 and int(atoms.size()) < n; ++i) {
        PTRef lhs;
        if (theory == "idl" or theory == "rdl") {
            size_t a = prnd(vars.size()), b = prnd(vars.size());
            if (a == b) b = (a + 1) % vars.size();
            lhs = al.mkMinus(vars[a], vars[b]);
        } else {
            vec<PTRef> sum;
            size_t k = 1 + prnd(3);
            for (size_t j = 0; j < k; ++j) {
                int c = int(prnd(7)) - 3;
                if (c == 0) c = 1;
                PTRef cc = isInt ? al.mkIntConst(Number(c)) : al.mkRealConst(Number(c));
                sum.push(al.mkTimes(cc, vars[prnd(vars.size())]));
            }
            lhs = al.mkPlus(std::move(sum));
            if (al.isNumConst(lhs)) continue;
        }
        PTRef c = constant(true);
        try {
            addAtom(prnd(2) ? al.mkLeq(lhs, c) : al.mkGeq(lhs, c));
        } catch (std::exception const &) {}        // e.g. a constant outside the difference-logic range: not part of the pool
    }
    return atoms;
}

struct Entry {
    PTRef atom;
    lbool sign;
};

std::string litText(Logic & logic, Entry const & e) {
    std::string a = logic.termToSMT2String(e.atom);
    return e.sign == l_True ? a : "(not " + a + ")";
}

std::string setText(Logic & logic, std::vector<Entry> const & trail) {
    std::string s;
    for (size_t i = 0; i < trail.size(); ++i) { s += (i ? " ; " : "") + litText(logic, trail[i]); }
    return s;
}
// One solver with its trail; the primitive operations are logged so that a walk can be replayed exactly
struct Walker {
    std::string theory;
    unsigned poolSeed;
    std::unique_ptr<World> w;
    std::vector<PTRef> atoms;
    std::vector<Entry> trail;
    std::vector<std::string> ops;
    int wk = 0;
    size_t unchecked = 0;      // trail literals asserted since the last consistent check
    bool broken = false;
    bool engineProtocol = true; // backtracking never splits a batch of literals that has not been checked yet (as the SAT engine)

    Walker(std::string const & th, unsigned ps, bool printDecls) : theory(th), poolSeed(ps) {
        w = makeWorld(theory);
        atoms = makeAtoms(*w, theory, poolSeed, printDecls);
        try {
            for (PTRef a : atoms) w->solver->declareAtom(a);
        } catch (std::exception const &) {
            // e.g. a constant outside the difference-logic range: the declaration is refused and this solver is not used at all
            broken = true;
        }
    }
    Logic & logic() { return *w->logic; }
    bool onTrail(PTRef a) const {
        for (auto const & e : trail) if (e.atom == a) return true;
        return false;
    }
    size_t indexOf(PTRef a) const {
        for (size_t i = 0; i < atoms.size(); ++i) if (atoms[i] == a) return i;
        return atoms.size();
    }
    std::string set() { return setText(logic(), trail); }
    int opIndex() const { return int(ops.size()) - 1; }

    void pop(size_t n) {
        n = std::min(n, trail.size());
        if (n == 0) return;
        ops.push_back("p " + std::to_string(n));
        w->solver->popBacktrackPoints(n);
        trail.resize(trail.size() - n);
        unchecked = unchecked > n ? unchecked - n : 0;
        stat["backtracked_literals"] += n;
    }
    // conflict must be a subset of the trail; then the engine leaves at least the last level
    void afterUnsat(size_t extraPops) {
        vec<PtAsgn> conflict;
        w->solver->getConflict(conflict);
        for (PtAsgn c : conflict) {
            bool found = false;
            for (auto const & e : trail) if (e.atom == c.tr and e.sign == c.sgn) found = true;
            if (not found) { std::printf("C %d %d | %s | %s\n", wk, opIndex(), litText(logic(), {c.tr, c.sgn}).c_str(), set().c_str()); }
        }
        stat["conflicts"]++;
        size_t n = 1 + extraPops;
        if (engineProtocol) n = std::max(n, unchecked);      // the conflicting batch goes as a whole
        pop(n);
    }
    // returns false when the assertion was inconsistent
    bool assertLit(size_t idx, bool positive, char tag = 'a') {
        Entry e{atoms[idx], positive ? l_True : l_False};
        w->solver->pushBacktrackPoint();
        bool ok = w->solver->assertLit(PtAsgn(e.atom, e.sign));
        ops.push_back(std::string(1, tag) + " " + std::to_string(idx) + " " + (positive ? "1" : "0") + (ok ? "" : " F"));
        trail.push_back(e);
        ++unchecked;
        stat["asserts"]++;
        if (not ok) { std::printf("V %d %d assert UNSAT 0 | %s\n", wk, opIndex(), set().c_str()); }
        return ok;
    }
    TRes check(bool complete) {
        TRes res = w->solver->check(complete);
        ops.push_back(std::string("c ") + (complete ? "1" : "0") + (res == TRes::UNSAT ? " U" : ""));
        bool splits = w->solver->hasNewSplits();
        if (splits) { vec<PTRef> tmp; w->solver->getNewSplits(tmp); }
        stat[std::string("check_") + verdictName(res)]++;
        if (res != TRes::UNSAT) unchecked = 0;
        std::printf("V %d %d check%d %s %d | %s\n", wk, opIndex(), int(complete), verdictName(res),
                    int(complete and not splits and theory != "lia"), set().c_str());
        return res;
    }
    // one getDeduction call; a new deduced literal goes on the trail like any other literal.  0 none, 1 taken, -1 inconsistent
    int deduce() {
        ops.push_back("g");
        PtAsgn_reason d = w->solver->getDeduction();
        if (d.tr == PTRef_Undef) return 0;
        if (onTrail(d.tr) or indexOf(d.tr) == atoms.size()) return 1;
        stat["deductions"]++;
        std::printf("D %d %d | %s | %s\n", wk, opIndex(), litText(logic(), {d.tr, d.sgn}).c_str(), set().c_str());
        w->solver->pushBacktrackPoint();
        bool ok = w->solver->assertLit(PtAsgn(d.tr, d.sgn));
        trail.push_back({d.tr, d.sgn});
        ++unchecked;
        if (not ok) {
            std::printf("V %d %d assert UNSAT 0 | %s\n", wk, opIndex(), set().c_str());
            return -1;
        }
        return 1;
    }
    // history independence: a fresh solver given the same literal set
    void compareWithFresh(TRes res) {
        Walker f(theory, poolSeed, false);
        if (f.broken or f.atoms.size() != atoms.size()) return;
        bool ok = true;
        for (auto const & e : trail) {
            f.w->solver->pushBacktrackPoint();
            if (not f.w->solver->assertLit(PtAsgn(f.atoms[indexOf(e.atom)], e.sign))) { ok = false; break; }
        }
        TRes fres = ok ? f.w->solver->check(true) : TRes::UNSAT;
        stat["fresh_comparisons"]++;
        if (fres == TRes::UNKNOWN or res == TRes::UNKNOWN or fres == res) return;
        if (theory == "lia" and fres != TRes::UNSAT and res != TRes::UNSAT) return;
        std::printf("H %d %d history=%s fresh=%s | %s\n", wk, opIndex(), verdictName(res), verdictName(fres), set().c_str());
    }
    void printOps() {
        std::string s;
        for (auto const & o : ops) s += o + ",";
        std::printf("W %d %s %u %s | %s\n", wk, theory.c_str(), poolSeed, engineProtocol ? "engine" : "free", s.c_str());
    }
};
} // namespace

int main(int argc, char ** argv) {
    if (argc > 4 and std::string(argv[1]) == "replay") {
        // h_tsolver replay <theory> <poolSeed> <ops>: re-executes a logged walk, then a complete check and the fresh comparison
        Walker wk(argv[2], unsigned(std::strtoul(argv[3], nullptr, 10)), true);
        std::string ops = argv[4];
        if (wk.broken) { std::printf("DONE\n"); return 0; }
        size_t pos = 0;
        bool consistent = true;
        try {
            while (pos < ops.size()) {
                size_t end = ops.find(',', pos);
                if (end == std::string::npos) end = ops.size();
                std::string op = ops.substr(pos, end - pos);
                pos = end + 1;
                if (op.empty()) continue;
                char k = op[0];
                if (not consistent and k != 'p') continue;       // after an inconsistency the only legal move is to backtrack
                if (k == 'a') {
                    size_t idx; int sg;
                    if (std::sscanf(op.c_str() + 1, "%zu %d", &idx, &sg) != 2 or idx >= wk.atoms.size() or wk.onTrail(wk.atoms[idx])) continue;
                    consistent = wk.assertLit(idx, sg != 0);
                } else if (k == 'c') { consistent = wk.check(op.size() > 2 and op[2] == '1') != TRes::UNSAT; }
                else if (k == 'p') { wk.pop(std::strtoul(op.c_str() + 1, nullptr, 10)); consistent = true; }
                else if (k == 'g') { if (consistent) wk.deduce(); }
            }
            if (consistent) {
                TRes res = wk.check(true);
                if (res != TRes::UNSAT) wk.compareWithFresh(res);
            }
        } catch (std::exception const & e) {
            std::printf("X 0 %d | %s\n", wk.opIndex(), e.what());
        }
        wk.printOps();
        std::printf("DONE\n");
        return 0;
    }
    unsigned seed = argc > 1 ? std::atoi(argv[1]) : 1;
    int walks = argc > 2 ? std::atoi(argv[2]) : 20;
    std::string theory = argc > 3 ? argv[3] : "lra";
    rng.seed(seed);
    bool declsPrinted = false;
    for (int wkNo = 0; wkNo < walks; ++wkNo) {
        unsigned poolSeed = unsigned(rng());
        Walker wk(theory, poolSeed, not declsPrinted);
        wk.wk = wkNo;
        wk.engineProtocol = rnd(5) != 0;
        stat[wk.engineProtocol ? "walks_engine_protocol" : "walks_free_protocol"]++;
        declsPrinted = true;       // variable names are the same in every walk
        if (wk.broken) { stat["pools_refused"]++; continue; }
        if (wk.atoms.size() < 3) continue;
        int steps = 50 + rnd(200);
        try {
            for (int step = 0; step < steps; ++step) {
                size_t r = rnd(10);
                if (r < 5 and wk.trail.size() < wk.atoms.size()) {
                    size_t idx = rnd(wk.atoms.size());
                    if (wk.onTrail(wk.atoms[idx])) continue;
                    if (not wk.assertLit(idx, rnd(2))) { wk.afterUnsat(rnd(3) == 0 ? rnd(wk.trail.size()) : 0); }
                } else if (r < 8) {
                    bool complete = rnd(2);
                    TRes res = wk.check(complete);
                    if (res == TRes::UNSAT) { wk.afterUnsat(rnd(3) == 0 ? rnd(wk.trail.size()) : 0); continue; }
                    // deductions are drained and put on the trail, as the SAT engine does
                    int d;
                    while ((d = wk.deduce()) == 1) {}
                    if (d == -1) { wk.afterUnsat(0); continue; }
                    if (complete and rnd(3) == 0 and not wk.trail.empty()) { wk.compareWithFresh(res); }
                } else {
                    size_t n = rnd(4) == 0 ? wk.trail.size() : 1 + rnd(3);
                    if (wk.engineProtocol and wk.unchecked > 0) n = std::max(n, wk.unchecked);
                    wk.pop(n);
                }
            }
        } catch (std::exception const & e) {
            std::printf("X %d %d | %s\n", wkNo, wk.opIndex(), e.what());
        }
        wk.printOps();
        stat["walks"]++;
    }
    for (auto const & kv : stat) std::printf("STAT %s %ld\n", kv.first.c_str(), kv.second);
    std::printf("DONE\n");
    return 0;
}
