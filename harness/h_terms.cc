// C14 / C28 harness: random well-sorted term construction through the public constructors.
// Usage: h_terms <seed> <nconstructions> <logic>
// Output:
//   DECL <smtlib declaration>
//   P <sort> | <intended smtlib> | <printed result>      one per successful construction (C14)
//   X <intended smtlib> | <exception text>                constructor threw
//   V28 <kind> | <detail>                                 identity violation (C28)
//   STAT <name> <count>   and DONE
#include <logics/ArithLogic.h>
#include <logics/Logic.h>
#include <logics/LogicFactory.h>

#include <algorithm>
#include <cstdio>
#include <map>
#include <memory>
#include <random>
#include <set>
#include <string>
#include <vector>

using namespace opensmt;

struct Entry {
    PTRef tr;
    std::string txt;
};

static std::mt19937_64 rng;
static std::map<std::string, std::vector<Entry>> pool;
static std::map<std::string, long> stat;
static Logic * logicp = nullptr;
static ArithLogic * alogic = nullptr;

static size_t rnd(size_t n) { return rng() % n; }

static Entry const & pick(std::string const & sort) {
    auto & v = pool[sort];
    // bias towards recently created (deeper) terms and towards the first few (variables / constants)
    size_t n = v.size();
    if (rnd(3) == 0) return v[n - 1 - rnd(std::min<size_t>(n, 12))];
    return v[rnd(n)];
}

static void addPool(std::string const & sort, PTRef tr, std::string const & txt) {
    auto & v = pool[sort];
    if (v.size() < 400 && txt.size() < 600) v.push_back({tr, txt});
}

static std::string canonInt(std::string const & s) {
    if (s[0] == '-') return "(- " + s.substr(1) + ")";
    return s;
}
static std::string canonReal(std::string const & s) {   // s = [-]n or [-]n/d
    bool neg = s[0] == '-';
    std::string a = neg ? s.substr(1) : s;
    std::string r;
    auto p = a.find('/');
    if (p == std::string::npos) r = a + ".0";
    else r = "(/ " + a.substr(0, p) + ".0 " + a.substr(p + 1) + ".0)";
    return neg ? "(- " + r + ")" : r;
}

struct Op {
    std::string name;
    std::string res;
    std::vector<std::string> args;     // fixed arity argument sorts
};

// identity checks of C28 on one constructor call
template<typename F>
static void construct(std::string const & op, std::string const & resSort, std::vector<Entry> const & args, F && f, bool commutativeCandidate) {
    std::string intended = "(" + op;
    for (auto const & a : args) intended += " " + a.txt;
    intended += ")";
    vec<PTRef> v;
    for (auto const & a : args) v.push(a.tr);
    PTRef r = PTRef_Undef;
    try {
        vec<PTRef> v1; v.copyTo(v1);
        r = f(std::move(v1));
    } catch (std::exception const & e) {
        stat["exceptions"]++;
        printf("X %s | %s\n", intended.c_str(), e.what());
        return;
    }
    stat["constructions"]++;
    stat["op_" + op]++;
    printf("P %s | %s | %s\n", resSort.c_str(), intended.c_str(), logicp->termToSMT2String(r).c_str());
    // C28 (1): the same call again returns the same identity
    try {
        vec<PTRef> v2; v.copyTo(v2);
        PTRef r2 = f(std::move(v2));
        stat["rebuilds"]++;
        if (r2 != r) printf("V28 rebuild-differs | %s : %u vs %u\n", intended.c_str(), r.x, r2.x);
    } catch (std::exception const &) {}
    // C28 (2): argument order does not matter where the result symbol is marked commutative
    if (commutativeCandidate && args.size() >= 2) {
        Pterm const & t = logicp->getPterm(r);
        if (logicp->getSym(t.symb()).commutes() or (op == "distinct" and logicp->isDisequality(t.symb()))) {
            vec<PTRef> v3; v.copyTo(v3);
            std::reverse(v3.begin(), v3.end());
            try {
                PTRef r3 = f(std::move(v3));
                stat["permutations"]++;
                if (r3 != r) printf("V28 commutative-order | %s : %u vs %u\n", intended.c_str(), r.x, r3.x);
            } catch (std::exception const &) {}
        }
    }
    addPool(resSort, r, intended);
}

static void audit() {
    // C28 (3): no two identities with the same (symbol, children); children are created before parents
    std::map<std::pair<uint32_t, std::vector<uint32_t>>, uint32_t> seen;
    auto it = logicp->getPtermIter();
    long n = 0;
    uint32_t prevId = 0;
    bool first = true;
    for (PTRef tr = *it; tr != PTRef_Undef; ++it, tr = *it) {
        ++n;
        Pterm const & t = logicp->getPterm(tr);
        std::vector<uint32_t> ch;
        for (int i = 0; i < t.size(); ++i) {
            ch.push_back(t[i].x);
            if (logicp->getPterm(t[i]).getId().x >= t.getId().x) {
                printf("V28 child-not-older | term id %u has child id %u : %s\n", t.getId().x, logicp->getPterm(t[i]).getId().x, logicp->termToSMT2String(tr).c_str());
            }
        }
        auto key = std::make_pair(t.symb().x, ch);
        auto ins = seen.emplace(key, tr.x);
        if (!ins.second) printf("V28 duplicate-identity | %u and %u both are %s\n", ins.first->second, tr.x, logicp->termToSMT2String(tr).c_str());
        if (!first && t.getId().x <= prevId) printf("V28 id-order | id %u after %u\n", t.getId().x, prevId);
        prevId = t.getId().x;
        first = false;
    }
    stat["audited_terms"] = n;
}

int main(int argc, char ** argv) {
    unsigned seed = argc > 1 ? atoi(argv[1]) : 1;
    long N = argc > 2 ? atol(argv[2]) : 2000;
    std::string lname = argc > 3 ? argv[3] : "QF_UFLIA";
    rng.seed(seed);
    std::unique_ptr<Logic> logic(LogicFactory::getInstance(getLogicFromString(lname)));
    logicp = logic.get();
    alogic = dynamic_cast<ArithLogic *>(logicp);
    bool hasInt = alogic && alogic->hasIntegers();
    bool hasReal = alogic && alogic->hasReals();
    bool hasUF = lname.find("UF") != std::string::npos;
    bool hasArr = lname.find("QF_A") == 0;
    SRef B = logic->getSort_bool();
    for (char const * n : {"p", "q", "r"}) {
        addPool("Bool", logic->mkBoolVar(n), n);
        printf("DECL (declare-fun %s () Bool)\n", n);
    }
    addPool("Bool", logic->getTerm_true(), "true");
    addPool("Bool", logic->getTerm_false(), "false");
    std::vector<std::string> ints = {"0", "1", "-1", "2", "3", "-3", "7", "2147483647", "2147483648", "-2147483648", "-2147483649",
                                     "4294967295", "4294967296", "9007199254740993", "9223372036854775807", "-9223372036854775808",
                                     "9223372036854775808", "18446744073709551616"};
    std::vector<std::string> reals = {"0", "1", "-1", "2", "1/2", "-1/3", "3/4", "2147483647/2", "2147483648", "-2147483649/3",
                                      "1/4294967296", "9223372036854775808/3", "5/7"};
    std::vector<std::string> numSorts;
    if (hasInt) {
        numSorts.push_back("Int");
        for (char const * n : {"i", "j", "k"}) { addPool("Int", alogic->mkIntVar(n), n); printf("DECL (declare-fun %s () Int)\n", n); }
        for (auto const & c : ints) addPool("IntConst", alogic->mkIntConst(Number(c.c_str())), canonInt(c));
        for (auto const & e : pool["IntConst"]) if (rnd(2)) addPool("Int", e.tr, e.txt);
    }
    if (hasReal) {
        numSorts.push_back("Real");
        for (char const * n : {"x", "y", "z"}) { addPool("Real", alogic->mkRealVar(n), n); printf("DECL (declare-fun %s () Real)\n", n); }
        for (auto const & c : reals) addPool("RealConst", alogic->mkRealConst(Number(c.c_str())), canonReal(c));
        for (auto const & e : pool["RealConst"]) if (rnd(2)) addPool("Real", e.tr, e.txt);
    }
    SymRef fsym = SymRef_Undef;
    SRef U = SRef_Undef;
    if (hasUF) {
        U = logic->declareUninterpretedSort("U");
        printf("DECL (declare-sort U 0)\n");
        for (char const * n : {"a", "b", "c"}) { addPool("U", logic->mkVar(U, n), n); printf("DECL (declare-fun %s () U)\n", n); }
        fsym = logic->declareFun("f", U, {U});
        printf("DECL (declare-fun f (U) U)\n");
    }
    std::string arrSort, arrIdx, arrElem;
    if (hasArr && alogic && hasInt) {
        SRef I = alogic->getSort_int();
        SRef A = logic->getArraySort(I, I);
        arrSort = "Arr"; arrIdx = "Int"; arrElem = "Int";
        for (char const * n : {"m", "n"}) { addPool("Arr", logic->mkVar(A, n), n); printf("DECL (declare-fun %s () (Array Int Int))\n", n); }
    }
    std::vector<std::string> eqSorts = {"Bool"};
    for (auto const & s : numSorts) eqSorts.push_back(s);
    if (hasUF) eqSorts.push_back("U");
    if (!arrSort.empty()) eqSorts.push_back("Arr");

    auto argsOf = [&](std::string const & sort, size_t n) {
        std::vector<Entry> a;
        for (size_t i = 0; i < n; ++i) {
            if (i > 0 && rnd(6) == 0) a.push_back(a[rnd(a.size())]);          // repeated argument
            else a.push_back(pick(sort));
        }
        if (sort == "Bool" && n >= 2 && rnd(8) == 0) {                         // complementary arguments
            Entry e = a[0];
            a[1] = {logicp->mkNot(e.tr), "(not " + e.txt + ")"};
        }
        return a;
    };

    for (long it = 0; it < N; ++it) {
        int k = rnd(20);
        if (k == 0) { auto a = argsOf("Bool", 2 + rnd(3)); construct("and", "Bool", a, [&](vec<PTRef> && v) { return logicp->mkAnd(std::move(v)); }, true); }
        else if (k == 1) { auto a = argsOf("Bool", 2 + rnd(3)); construct("or", "Bool", a, [&](vec<PTRef> && v) { return logicp->mkOr(std::move(v)); }, true); }
        else if (k == 2) { auto a = argsOf("Bool", 1); construct("not", "Bool", a, [&](vec<PTRef> && v) { return logicp->mkNot(v[0]); }, false); }
        else if (k == 3) { auto a = argsOf("Bool", 2); construct("=>", "Bool", a, [&](vec<PTRef> && v) { return logicp->mkImpl(std::move(v)); }, false); }
        else if (k == 4) { auto a = argsOf("Bool", 2); construct("xor", "Bool", a, [&](vec<PTRef> && v) { return logicp->mkXor(std::move(v)); }, false); }
        else if (k == 5) {
            std::string s = eqSorts[rnd(eqSorts.size())];
            std::vector<Entry> a = {pick("Bool"), pick(s), rnd(7) == 0 ? Entry{PTRef_Undef, ""} : pick(s)};
            if (a[2].tr == PTRef_Undef) a[2] = a[1];
            construct("ite", s, a, [&](vec<PTRef> && v) { return logicp->mkIte(std::move(v)); }, false);
        }
        else if (k == 6 || k == 7) {
            std::string s = eqSorts[rnd(eqSorts.size())];
            auto a = argsOf(s, 2 + (rnd(4) == 0));
            // Boolean equality is built without reordering its arguments, so the order-insensitivity clause of
            // C28 ("where the constructor normalises it") is only demanded of equalities over other sorts
            construct("=", "Bool", a, [&](vec<PTRef> && v) { return logicp->mkEq(std::move(v)); }, false);   // order-insensitivity of = is only partial (arithmetic normal forms), not demanded
        }
        else if (k == 8) {
            std::string s = eqSorts[rnd(eqSorts.size())];
            auto a = argsOf(s, 2 + rnd(3));
            // mkDistinct sorts its arguments when there are three or more of them (two arguments become a negated equality,
            // whose order is only partially normalised): order-insensitivity is demanded of the n-ary form only
            construct("distinct", "Bool", a, [&](vec<PTRef> && v) { return logicp->mkDistinct(std::move(v)); }, a.size() >= 3);
        }
        else if (numSorts.empty()) { continue; }
        else {
            std::string s = numSorts[rnd(numSorts.size())];
            std::string cs = s + "Const";
            if (k == 9 || k == 10) { auto a = argsOf(s, 2 + rnd(3)); construct("+", s, a, [&](vec<PTRef> && v) { return alogic->mkPlus(std::move(v)); }, true); }
            else if (k == 11) {
                size_t n = 1 + rnd(3);
                auto a = argsOf(s, n);
                if (n == 1) construct("-", s, a, [&](vec<PTRef> && v) { return alogic->mkNeg(v[0]); }, false);
                else construct("-", s, a, [&](vec<PTRef> && v) { return alogic->mkMinus(std::move(v)); }, false);
            }
            else if (k == 12 || k == 13) {
                std::vector<Entry> a = {pick(cs), pick(s)};
                if (rnd(4) == 0) a.push_back(pick(cs));
                if (rnd(2)) std::swap(a[0], a[1]);
                construct("*", s, a, [&](vec<PTRef> && v) { return alogic->mkTimes(std::move(v)); }, true);
            }
            else if (k == 14) {
                if (s == "Real") {
                    std::vector<Entry> a = {pick(s), pick(cs)};
                    if (a[1].txt == "0.0") continue;
                    construct("/", s, a, [&](vec<PTRef> && v) { return alogic->mkRealDiv(std::move(v)); }, false);
                } else {
                    std::vector<Entry> a = {rnd(3) ? pick(s) : pick(cs), pick(cs)};
                    if (a[1].txt == "0") continue;
                    bool dv = rnd(2);
                    construct(dv ? "div" : "mod", s, a, [&](vec<PTRef> && v) { return dv ? alogic->mkIntDiv(std::move(v)) : alogic->mkMod(std::move(v)); }, false);
                }
            }
            else if (k <= 18) {
                char const * ops[] = {"<=", "<", ">=", ">"};
                int o = rnd(4);
                auto a = argsOf(s, 2);
                if (rnd(3) == 0) a[1] = pick(cs);
                construct(ops[o], "Bool", a, [&](vec<PTRef> && v) {
                    switch (o) { case 0: return alogic->mkLeq(v[0], v[1]); case 1: return alogic->mkLt(v[0], v[1]);
                                 case 2: return alogic->mkGeq(v[0], v[1]); default: return alogic->mkGt(v[0], v[1]); } }, false);
            }
            else if (k == 19) {
                if (hasUF && rnd(2)) { auto a = argsOf("U", 1); construct("f", "U", a, [&](vec<PTRef> && v) { return logicp->mkUninterpFun(fsym, std::move(v)); }, false); }
                else if (!arrSort.empty()) {
                    if (rnd(2)) { std::vector<Entry> a = {pick("Arr"), pick("Int")}; construct("select", "Int", a, [&](vec<PTRef> && v) { return logicp->mkSelect(std::move(v)); }, false); }
                    else { std::vector<Entry> a = {pick("Arr"), pick("Int"), pick("Int")}; construct("store", "Arr", a, [&](vec<PTRef> && v) { return logicp->mkStore(std::move(v)); }, false); }
                }
            }
        }
    }
    audit();
    for (auto const & kv : stat) printf("STAT %s %ld\n", kv.first.c_str(), kv.second);
    printf("DONE\n");
    return 0;
}
