// C16 harness: numeric literals through the API.
// Reads one literal per line from stdin; for each: mkConst(name) [SMT-LIB style resolution], mkConst(Int,name), mkConst(Real,name)
// in the logic given as argv[1].  Prints for each attempt
//   R <lineno> <api> ok <value num/den> | <printed term>
//   R <lineno> <api> exc <message>
#include <logics/ArithLogic.h>
#include <logics/LogicFactory.h>

#include <csignal>
#include <cstdio>
#include <iostream>
#include <memory>
#include <string>
#include <unistd.h>

using namespace opensmt;
static char cur[600];
static void onsig(int s) {
    char buf[700];
    int n = snprintf(buf, sizeof(buf), "FATAL %d %s\n", s, cur);
    (void)!write(1, buf, n);
    _exit(3);
}

int main(int argc, char ** argv) {
    std::string lname = argc > 1 ? argv[1] : "QF_LRA";
    for (int s : {SIGFPE, SIGSEGV, SIGABRT, SIGBUS}) signal(s, onsig);
    std::unique_ptr<Logic> logic(LogicFactory::getInstance(getLogicFromString(lname)));
    ArithLogic & l = dynamic_cast<ArithLogic &>(*logic);
    std::string line;
    long no = 0;
    while (std::getline(std::cin, line)) {
        ++no;
        if (line.empty()) continue;
        for (int api = 0; api < 3; ++api) {
            if (api == 1 && !l.hasIntegers()) continue;
            if (api == 2 && !l.hasReals()) continue;
            // mkConst(name) treats a string without any digit as a symbol name, not as a numeric literal
            if (api == 0 && line.find_first_of("0123456789") == std::string::npos) continue;
            char const * tag = api == 0 ? "auto" : (api == 1 ? "int" : "real");
            snprintf(cur, sizeof(cur), "%ld %s %s", no, tag, line.c_str());
            try {
                PTRef tr = api == 0 ? l.mkConst(line.c_str()) : l.mkConst(api == 1 ? l.getSort_int() : l.getSort_real(), line.c_str());
                if (l.isNumConst(tr)) {
                    printf("R %ld %s ok %s | %s | %s\n", no, tag, l.getNumConst(tr).get_str().c_str(), l.termToSMT2String(tr).c_str(),
                           l.sortToString(l.getSortRef(tr)).c_str());
                } else {
                    printf("R %ld %s other %s\n", no, tag, l.termToSMT2String(tr).c_str());
                }
            } catch (std::exception const & e) {
                printf("R %ld %s exc %s\n", no, tag, e.what());
            } catch (...) {
                printf("R %ld %s exc unknown-exception\n", no, tag);
            }
        }
    }
    printf("DONE %ld\n", no);
    return 0;
}
