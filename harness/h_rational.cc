// C15 harness: FastRational against GMP (mpq_class / mpz_class) on a boundary grid and random operands.
// Usage: h_rational <seed> <nrandom>
// Prints  MISMATCH <op> | <a> | <b> | got=<..> | want=<..>   for every disagreement,
//         FATAL <signal> <op> | <a> | <b>                    from the signal handler,
//         STAT <op> <evaluations>                            per operation, and DONE at the end.
#include <common/numbers/FastRational.h>

#include <gmpxx.h>

#include <csignal>
#include <cstdio>
#include <cstdlib>
#include <cstring>
#include <map>
#include <random>
#include <set>
#include <string>
#include <unistd.h>
#include <vector>

using opensmt::FastRational;

static char cur[1024];
static void setcur(char const * op, std::string const & a, std::string const & b) {
    snprintf(cur, sizeof(cur), "%s | %s | %s", op, a.c_str(), b.c_str());
}
static void onsig(int s) {
    char buf[1200];
    int n = snprintf(buf, sizeof(buf), "FATAL %d %s\n", s, cur);
    (void)!write(1, buf, n);
    _exit(3);
}

static std::map<std::string, long> stat;
static long mismatches = 0;

static std::string mstr(mpq_class const & q) { return q.get_str(); }
static std::string fstr(FastRational const & f) { return f.getMpq().get_str(); }

static void report(char const * op, std::string const & a, std::string const & b, std::string const & got, std::string const & want) {
    ++mismatches;
    if (mismatches < 400) printf("MISMATCH %s | %s | %s | got=%s | want=%s\n", op, a.c_str(), b.c_str(), got.c_str(), want.c_str());
}

// representation invariants observable through the public interface
static void checkRepr(char const * op, std::string const & a, std::string const & b, FastRational const & r, mpq_class const & want) {
    stat[op]++;
    if (fstr(r) != mstr(want)) { report(op, a, b, fstr(r), mstr(want)); return; }
    bool fits = mpz_fits_sint_p(want.get_num_mpz_t()) && mpz_fits_uint_p(want.get_den_mpz_t());
    // value fits the word pair  <=>  word part valid (equal values must have the same representation)
    if (fits != r.wordPartValid()) { report((std::string(op) + ":representation").c_str(), a, b, r.wordPartValid() ? "word" : "mpq", fits ? "word" : "mpq"); }
    if (r.wordPartValid()) {
        auto nd = r.tryGetNumDen();
        if (!nd || mpq_class(nd->first, nd->second) != want || nd->second == 0) {
            report((std::string(op) + ":numden").c_str(), a, b, nd ? std::to_string(nd->first) + "/" + std::to_string(nd->second) : "none", mstr(want));
        } else {
            mpz_class g; mpz_class n(nd->first), d(nd->second);
            mpz_gcd(g.get_mpz_t(), n.get_mpz_t(), d.get_mpz_t());
            if (g != 1 && !(n == 0 && d == 1)) report((std::string(op) + ":not-canonical").c_str(), a, b, std::to_string(nd->first) + "/" + std::to_string(nd->second), mstr(want));
        }
    }
    // a fresh object with the same value must be == and hash equal
    FastRational fresh(mstr(want).c_str());
    if (!(fresh == r) || fresh.getHashValue() != r.getHashValue()) {
        report((std::string(op) + ":eq-or-hash").c_str(), a, b, std::to_string(r.getHashValue()), std::to_string(fresh.getHashValue()));
    }
}

static mpz_class fdiv_q(mpz_class const & n, mpz_class const & d) { mpz_class q; mpz_fdiv_q(q.get_mpz_t(), n.get_mpz_t(), d.get_mpz_t()); return q; }
static mpz_class fdiv_r(mpz_class const & n, mpz_class const & d) { mpz_class q; mpz_fdiv_r(q.get_mpz_t(), n.get_mpz_t(), d.get_mpz_t()); return q; }

struct Val {
    mpq_class q;
    std::vector<FastRational> forms;   // the same value reached in different ways
};

static FastRational viaArith(mpq_class const & q) {
    // passes through the arbitrary-precision representation and back
    static FastRational const big("1180591620717411303424");   // 2^70
    FastRational x(q.get_str().c_str());
    FastRational y = x + big;
    y -= big;
    return y;
}

static FastRational viaMul(mpq_class const & q) {
    FastRational x(q.get_str().c_str());
    FastRational three("3"), third("1/3");
    FastRational y = x * three;
    y *= third;
    return y;
}

static void unary(Val const & A) {
    std::string a = mstr(A.q);
    for (size_t fi = 0; fi < A.forms.size(); ++fi) {
        FastRational const & x = A.forms[fi];
        setcur("neg", a, ""); checkRepr("neg", a, "", -x, -A.q);
        { setcur("negate", a, ""); FastRational y = x; y.negate(); checkRepr("negate", a, "", y, -A.q); }
        if (A.q != 0) { setcur("inverse", a, ""); checkRepr("inverse", a, "", x.inverse(), 1 / A.q); }
        setcur("sign", a, ""); stat["sign"]++; if (x.sign() != sgn(A.q)) report("sign", a, "", std::to_string(x.sign()), std::to_string(sgn(A.q)));
        mpz_class fl = fdiv_q(A.q.get_num(), A.q.get_den());
        mpz_class ce; mpz_cdiv_q(ce.get_mpz_t(), A.q.get_num_mpz_t(), A.q.get_den_mpz_t());
        setcur("floor", a, ""); checkRepr("floor", a, "", x.floor(), mpq_class(fl));
        setcur("ceil", a, ""); checkRepr("ceil", a, "", x.ceil(), mpq_class(ce));
        setcur("isInteger", a, ""); stat["isInteger"]++; if (x.isInteger() != (A.q.get_den() == 1)) report("isInteger", a, "", x.isInteger() ? "true" : "false", "other");
        setcur("get_num", a, ""); checkRepr("get_num", a, "", x.get_num(), mpq_class(A.q.get_num()));
        setcur("get_den", a, ""); checkRepr("get_den", a, "", x.get_den(), mpq_class(A.q.get_den()));
        setcur("abs", a, ""); checkRepr("abs", a, "", abs(x), abs(A.q));
        setcur("isZero", a, ""); stat["isZero"]++; if (x.isZero() != (A.q == 0)) report("isZero", a, "", "", "");
        setcur("get_str", a, ""); stat["get_str"]++; { FastRational back(x.get_str().c_str()); if (fstr(back) != a) report("get_str-roundtrip", a, "", x.get_str(), a); }
        { setcur("self+=", a, ""); FastRational y = x; y += y; checkRepr("self+=", a, "", y, A.q + A.q); }
        { setcur("self-=", a, ""); FastRational y = x; y -= y; checkRepr("self-=", a, "", y, mpq_class(0)); }
        { setcur("self*=", a, ""); FastRational y = x; y *= y; checkRepr("self*=", a, "", y, A.q * A.q); }
        if (A.q != 0) { setcur("self/=", a, ""); FastRational y = x; y /= y; checkRepr("self/=", a, "", y, mpq_class(1)); }
    }
}

static void binary(Val const & A, Val const & B, bool allForms) {
    std::string a = mstr(A.q), b = mstr(B.q);
    size_t na = allForms ? A.forms.size() : 1, nb = allForms ? B.forms.size() : 1;
    for (size_t i = 0; i < na; ++i) for (size_t j = 0; j < nb; ++j) {
        FastRational const & x = A.forms[i];
        FastRational const & y = B.forms[j];
        setcur("+", a, b); checkRepr("+", a, b, x + y, A.q + B.q);
        setcur("-", a, b); checkRepr("-", a, b, x - y, A.q - B.q);
        setcur("*", a, b); checkRepr("*", a, b, x * y, A.q * B.q);
        if (B.q != 0) { setcur("/", a, b); checkRepr("/", a, b, x / y, A.q / B.q); }
        { setcur("+=", a, b); FastRational z = x; z += y; checkRepr("+=", a, b, z, A.q + B.q); }
        { setcur("-=", a, b); FastRational z = x; z -= y; checkRepr("-=", a, b, z, A.q - B.q); }
        { setcur("*=", a, b); FastRational z = x; z *= y; checkRepr("*=", a, b, z, A.q * B.q); }
        if (B.q != 0) { setcur("/=", a, b); FastRational z = x; z /= y; checkRepr("/=", a, b, z, A.q / B.q); }
        // chains: the result of one in-place operation is used by the next (history independence)
        { setcur("chain*=*=", a, b); FastRational z = x; z *= y; z *= y; z += x; checkRepr("chain", a, b, z, A.q * B.q * B.q + A.q); }
        int c = cmp(A.q, B.q);
        setcur("compare", a, b); stat["compare"]++;
        int fc = x.compare(y);
        if ((fc > 0) - (fc < 0) != (c > 0) - (c < 0)) report("compare", a, b, std::to_string(fc), std::to_string(c));
        if ((x < y) != (c < 0) || (x <= y) != (c <= 0) || (x > y) != (c > 0) || (x >= y) != (c >= 0) || (x == y) != (c == 0) || (x != y) != (c != 0))
            report("relational", a, b, "", "");
        setcur("cmpabs", a, b); stat["cmpabs"]++;
        { int ca = cmpabs(x, y); int want = cmp(abs(A.q), abs(B.q)); if ((ca > 0) - (ca < 0) != (want > 0) - (want < 0)) report("cmpabs", a, b, std::to_string(ca), std::to_string(want)); }
        if (A.q.get_den() == 1 && B.q.get_den() == 1) {
            mpz_class za = A.q.get_num(), zb = B.q.get_num();
            { setcur("gcd", a, b); mpz_class g; mpz_gcd(g.get_mpz_t(), za.get_mpz_t(), zb.get_mpz_t());
              if (za != 0 || zb != 0) checkRepr("gcd", a, b, gcd(x, y), mpq_class(g)); }
            { setcur("lcm", a, b); mpz_class l; mpz_lcm(l.get_mpz_t(), za.get_mpz_t(), zb.get_mpz_t());
              if (za != 0 && zb != 0) checkRepr("lcm", a, b, lcm(x, y), mpq_class(l)); }
            if (zb != 0) {
                setcur("fdiv_q", a, b); checkRepr("fdiv_q", a, b, fastrat_fdiv_q(x, y), mpq_class(fdiv_q(za, zb)));
                // operator% is documented as 'the return value will have the sign of d' (floored remainder)
                setcur("%", a, b); { FastRational xx = x; checkRepr("%", a, b, xx % y, mpq_class(fdiv_r(za, zb))); }
                if (za % zb == 0) { setcur("divexact", a, b); checkRepr("divexact", a, b, divexact(x, y), mpq_class(za / zb)); }
            }
        }
    }
}

int main(int argc, char ** argv) {
    unsigned seed = argc > 1 ? atoi(argv[1]) : 1;
    long nrandom = argc > 2 ? atol(argv[2]) : 20000;
    size_t part = argc > 3 ? atol(argv[3]) : 0, nparts = argc > 4 ? atol(argv[4]) : 1;   // the grid is split among processes
    for (int s : {SIGFPE, SIGSEGV, SIGABRT, SIGBUS, SIGILL}) signal(s, onsig);

    std::vector<mpz_class> ints;
    auto add = [&](mpz_class const & z) { ints.push_back(z); ints.push_back(-z); };
    for (long v : {0L, 1L, 2L, 3L, 5L, 7L, 46337L, 46349L, 65521L, 65536L, 65537L}) add(v);
    for (int sh : {31, 32, 53, 63, 64}) {
        mpz_class p = 1; p <<= sh;
        for (int d = -2; d <= 2; ++d) add(p + d);
    }
    add(mpz_class("1000000000000000000000000000000"));
    std::set<std::string> seen;
    std::vector<Val> vals;
    auto addVal = [&](mpq_class q) {
        q.canonicalize();
        if (!seen.insert(q.get_str()).second) return;
        Val v; v.q = q;
        v.forms.emplace_back(q.get_str().c_str());
        v.forms.push_back(viaArith(q));
        v.forms.push_back(viaMul(q));
        vals.push_back(std::move(v));
    };
    std::vector<mpz_class> dens;
    for (auto const & z : ints) if (z > 0) dens.push_back(z);
    // numerators x a thinner set of denominators
    for (auto const & n : ints) for (size_t k = 0; k < dens.size(); k += 1) {
        if (k % 3 != 0 && !(dens[k] <= 3)) continue;
        addVal(mpq_class(n, dens[k]));
    }
    for (auto const & n : ints) addVal(mpq_class(n));
    printf("GRID %zu values\n", vals.size());
    for (size_t i = part; i < vals.size(); i += nparts) {
        auto const & v = vals[i];
        // the three ways of reaching a value must agree to begin with
        for (auto const & f : v.forms) checkRepr("construct", mstr(v.q), "", f, v.q);
        unary(v);
    }
    // all ordered pairs on a thinned grid (every value against every 'interesting' value), direct forms;
    std::mt19937_64 rng(seed);
    size_t step = vals.size() > 260 ? vals.size() / 260 + 1 : 1;
    for (size_t i = part; i < vals.size(); i += nparts) for (size_t j = (i + seed) % step; j < vals.size(); j += step) binary(vals[i], vals[j], false);
    // random pairs around the boundaries with all construction forms and chains
    auto rnd = [&]() -> Val const & { return vals[rng() % vals.size()]; };
    for (long k = 0; k < nrandom; ++k) {
        if (k % 4 == 0) {
            // fresh random operands with sizes drawn around the word boundary
            auto rz = [&]() { int bits = (int[]){8, 16, 30, 31, 32, 33, 40, 62, 64, 70}[rng() % 10]; mpz_class z = 1; z <<= bits; mpz_class r(std::to_string(rng()).c_str()); r %= z; if (rng() & 1) r = -r; return r; };
            mpz_class d = rz(); if (d == 0) d = 1; if (d < 0) d = -d;
            mpz_class d2 = rz(); if (d2 == 0) d2 = 1; if (d2 < 0) d2 = -d2;
            Val A, B; A.q = mpq_class(rz(), d); A.q.canonicalize(); B.q = mpq_class(rz(), d2); B.q.canonicalize();
            A.forms.emplace_back(A.q.get_str().c_str()); A.forms.push_back(viaArith(A.q)); A.forms.push_back(viaMul(A.q));
            B.forms.emplace_back(B.q.get_str().c_str()); B.forms.push_back(viaArith(B.q)); B.forms.push_back(viaMul(B.q));
            binary(A, B, true);
        } else {
            binary(rnd(), rnd(), true);
        }
    }
    long total = 0;
    for (auto const & kv : stat) { printf("STAT %s %ld\n", kv.first.c_str(), kv.second); total += kv.second; }
    printf("TOTAL %ld MISMATCHES %ld\nDONE\n", total, mismatches);
    return mismatches ? 1 : 0;
}
