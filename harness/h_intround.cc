// C27 harness: integer rounding in the term layer.
// Usage: h_intround <seed> <natoms>
// Output:
//   DECL <smtlib declaration>
//   M <op> | <a> | <b> | got=<..> | want=<..>      constant div/mod differs from the SMT-LIB (Euclidean) definition (GMP)
//   P Bool | <intended smtlib> | <printed result>  integer atom built by mkLeq/mkLt/mkGeq/mkGt/mkEq (checked by z3 in python)
//   P Int  | <intended smtlib> | <printed result>  div/mod with symbolic dividend
//   X <intended> | <exception>
//   STAT <name> <count>   and DONE
#include <logics/ArithLogic.h>
#include <logics/LogicFactory.h>

#include <gmpxx.h>

#include <cstdio>
#include <map>
#include <memory>
#include <random>
#include <string>
#include <vector>

using namespace opensmt;

static std::mt19937_64 rng;
static size_t rnd(size_t n) { return rng() % n; }
static std::map<std::string, long> stat;

static std::string canonInt(std::string const & s) {
    if (s[0] == '-') return "(- " + s.substr(1) + ")";
    return s;
}

int main(int argc, char ** argv) {
    unsigned seed = argc > 1 ? atoi(argv[1]) : 1;
    long N = argc > 2 ? atol(argv[2]) : 2000;
    rng.seed(seed);
    std::unique_ptr<Logic> logicHolder(LogicFactory::getInstance(getLogicFromString("QF_LIA")));
    ArithLogic & logic = dynamic_cast<ArithLogic &>(*logicHolder);

    std::vector<std::string> boundary = {"2147483647", "2147483648", "2147483649", "4294967295", "4294967296", "4294967297",
                                         "9007199254740992", "9007199254740993", "9223372036854775807", "9223372036854775808",
                                         "9223372036854775809", "18446744073709551615", "18446744073709551616", "18446744073709551617",
                                         "1000000000000000000000000000007", "65537", "46341", "3037000500"};
    std::vector<std::string> grid;
    for (int v = -40; v <= 40; ++v) grid.push_back(std::to_string(v));
    size_t small = grid.size();
    for (auto const & b : boundary) { grid.push_back(b); grid.push_back("-" + b); }

    // (a) constant folding of div and mod against the Euclidean definition: a = b*q + r, 0 <= r < |b|
    auto checkPair = [&](std::string const & as, std::string const & bs) {
        mpz_class a(as), b(bs);
        if (b == 0) return;
        mpz_class r, q;
        mpz_class absb = abs(b);
        mpz_mod(r.get_mpz_t(), a.get_mpz_t(), absb.get_mpz_t());      // 0 <= r < |b|
        q = (a - r) / b;
        PTRef ta = logic.mkIntConst(Number(as.c_str()));
        PTRef tb = logic.mkIntConst(Number(bs.c_str()));
        try {
            PTRef tq = logic.mkIntDiv(ta, tb);
            stat["const_div"]++;
            if (not logic.isNumConst(tq) or mpz_class(logic.getNumConst(tq).get_str()) != q) {
                printf("M div | %s | %s | got=%s | want=%s\n", as.c_str(), bs.c_str(), logic.termToSMT2String(tq).c_str(), q.get_str().c_str());
            }
            PTRef tr = logic.mkMod(ta, tb);
            stat["const_mod"]++;
            if (not logic.isNumConst(tr) or mpz_class(logic.getNumConst(tr).get_str()) != r) {
                printf("M mod | %s | %s | got=%s | want=%s\n", as.c_str(), bs.c_str(), logic.termToSMT2String(tr).c_str(), r.get_str().c_str());
            }
        } catch (std::exception const & e) {
            printf("X (div/mod %s %s) | %s\n", as.c_str(), bs.c_str(), e.what());
        }
    };
    for (size_t i = 0; i < small; ++i)
        for (size_t j = 0; j < small; ++j) checkPair(grid[i], grid[j]);           // exhaustive on [-40,40]^2
    for (size_t i = 0; i < grid.size(); ++i)
        for (size_t j = small; j < grid.size(); ++j) { checkPair(grid[i], grid[j]); checkPair(grid[j], grid[i]); }
    for (long it = 0; it < N; ++it) {                                             // random big operands
        auto big = [&]() {
            std::string s = rnd(2) ? "-" : "";
            s += std::to_string(1 + rnd(9));
            size_t d = rnd(28);
            for (size_t k = 0; k < d; ++k) s += std::to_string(rnd(10));
            return s;
        };
        checkPair(big(), rnd(3) ? big() : grid[rnd(grid.size())]);
    }

    // (c) integer atoms over a coefficient grid: gcd normalisation and tightening of the constant
    std::vector<std::pair<PTRef, std::string>> vars;
    for (char const * n : {"i", "j", "k"}) { vars.push_back({logic.mkIntVar(n), n}); printf("DECL (declare-fun %s () Int)\n", n); }
    std::vector<std::string> coeffs;
    for (int v = -6; v <= 6; ++v) coeffs.push_back(std::to_string(v));
    for (char const * c : {"12", "-15", "2147483648", "-4294967296", "9223372036854775807", "-9223372036854775808", "18446744073709551616", "6442450944"})
        coeffs.push_back(c);
    std::vector<std::string> consts;
    for (int v = -13; v <= 13; ++v) consts.push_back(std::to_string(v));
    for (auto const & b : boundary) { consts.push_back(b); consts.push_back("-" + b); }
    auto linear = [&](std::string & txt) {
        vec<PTRef> sum;
        std::string s = "(+";
        size_t nv = 1 + rnd(3);
        for (size_t v = 0; v < nv; ++v) {
            std::string c = coeffs[rnd(rnd(4) ? 13 : coeffs.size())];
            PTRef tc = logic.mkIntConst(Number(c.c_str()));
            sum.push(logic.mkTimes(tc, vars[v].first));
            s += " (* " + canonInt(c) + " " + vars[v].second + ")";
        }
        std::string d = consts[rnd(rnd(3) ? 27 : consts.size())];
        sum.push(logic.mkIntConst(Number(d.c_str())));
        s += " " + canonInt(d) + ")";
        txt = s;
        return logic.mkPlus(std::move(sum));
    };
    char const * ops[] = {"<=", "<", ">=", ">", "="};
    for (long it = 0; it < N; ++it) {
        std::string lt, rt;
        PTRef l = linear(lt);
        PTRef r;
        if (rnd(3) == 0) { r = linear(rt); }
        else { std::string d = consts[rnd(consts.size())]; r = logic.mkIntConst(Number(d.c_str())); rt = canonInt(d); }
        int o = rnd(5);
        std::string intended = std::string("(") + ops[o] + " " + lt + " " + rt + ")";
        try {
            PTRef res;
            switch (o) {
                case 0: res = logic.mkLeq(l, r); break;
                case 1: res = logic.mkLt(l, r); break;
                case 2: res = logic.mkGeq(l, r); break;
                case 3: res = logic.mkGt(l, r); break;
                default: res = logic.mkEq(l, r); break;
            }
            stat[std::string("atom_") + ops[o]]++;
            printf("P Bool | %s | %s\n", intended.c_str(), logic.termToSMT2String(res).c_str());
        } catch (std::exception const & e) {
            printf("X %s | %s\n", intended.c_str(), e.what());
        }
        if (it % 4 == 0) {     // div / mod of a linear term by a constant: the term must keep its meaning
            std::string d = consts[rnd(consts.size())];
            if (d == "0") continue;
            bool dv = rnd(2);
            std::string in2 = std::string("(") + (dv ? "div " : "mod ") + lt + " " + canonInt(d) + ")";
            try {
                PTRef tc = logic.mkIntConst(Number(d.c_str()));
                PTRef res = dv ? logic.mkIntDiv(l, tc) : logic.mkMod(l, tc);
                stat[dv ? "sym_div" : "sym_mod"]++;
                printf("P Int | %s | %s\n", in2.c_str(), logic.termToSMT2String(res).c_str());
            } catch (std::exception const & e) {
                printf("X %s | %s\n", in2.c_str(), e.what());
            }
        }
    }
    for (auto const & kv : stat) printf("STAT %s %ld\n", kv.first.c_str(), kv.second);
    printf("DONE\n");
    return 0;
}
