// C25 harness: asynchronous stop requests.
// Usage: h_stop <seed> <trials> <hook|free>
// Every trial builds a fresh instance of known status in the main thread, runs check() on a worker thread and issues
// notifyStop() (even trials) or notifyGlobalStop() (odd trials) from the main thread
//   hook: when the worker has passed the k-th logical moment (stopPoint hook: search loop head, theory check,
//         preprocessing of a frame, variable elimination step), k drawn from 0..(moments of an uninterrupted run)
//   free: after a random fraction of the uninterrupted wall time, the hook callback not installed at all.
// The rendezvous uses relaxed atomics only, so the monitor adds no synchronisation between the request and the solver.
// Output:
//   WRONG <trial> <family> <kind> k=<k> where=<w> | got=<r> | truth=<t>
//   STAT <name> <count>     DONE
#include <api/GlobalStop.h>
#include <api/MainSolver.h>
#include <common/VerifHooks.h>
#include <logics/ArithLogic.h>
#include <logics/Logic.h>
#include <models/Model.h>

#include <atomic>
#include <chrono>
#include <cstdio>
#include <cstdlib>
#include <map>
#include <memory>
#include <random>
#include <string>
#include <thread>
#include <vector>

using namespace opensmt;

namespace {
std::atomic<long> moments{0};
std::atomic<long> target{-1};
std::atomic<int> reachedWhere{0};

void onStopPoint(int where) {
    long n = moments.fetch_add(1, std::memory_order_relaxed);
    if (n == target.load(std::memory_order_relaxed)) { reachedWhere.store(where, std::memory_order_relaxed); }
}

std::string statusName(sstat s) {
    if (s == s_True) return "sat";
    if (s == s_False) return "unsat";
    if (s == s_Undef) return "unknown";
    return "error";
}

struct Instance {
    std::unique_ptr<Logic> logic;
    SMTConfig config;
    std::unique_ptr<MainSolver> solver;
    std::vector<PTRef> assertions;
    std::string truth; // "" = take the uninterrupted answer
};

// 0/1: Aardal-Lenstra knapsack (unsat for the Frobenius number, sat for a reachable right-hand side)
void knapsack(Instance & in, bool sat) {
    auto * logic = new ArithLogic(Logic_t::QF_LIA);
    in.logic.reset(logic);
    int const coeffs[5] = {12223, 12224, 36674, 61119, 85569};
    long rhs = sat ? (12223L * 3 + 12224L * 5 + 36674L * 2 + 61119L * 7 + 85569L * 11) : 89643481L;
    vec<PTRef> terms;
    for (int j = 0; j < 5; ++j) {
        PTRef x = logic->mkIntVar(("x" + std::to_string(j)).c_str());
        in.assertions.push_back(logic->mkGeq(x, logic->mkIntConst(Number(0))));
        terms.push(logic->mkTimes(logic->mkIntConst(Number(coeffs[j])), x));
    }
    in.assertions.push_back(logic->mkEq(logic->mkPlus(std::move(terms)), logic->mkIntConst(Number(std::to_string(rhs).c_str()))));
    in.truth = sat ? "sat" : "unsat";
}

// 2/3: pigeonhole principle over uninterpreted terms: p pigeons, h holes, hole(i) in {c_1..c_h}, pairwise distinct holes
void pigeons(Instance & in, int p, int h) {
    auto * logic = new Logic(Logic_t::QF_UF);
    in.logic.reset(logic);
    SRef U = logic->declareUninterpretedSort("U");
    SymRef hole = logic->declareFun("hole", U, {U});
    std::vector<PTRef> holes, birds;
    for (int i = 0; i < h; ++i) holes.push_back(logic->mkVar(U, ("c" + std::to_string(i)).c_str()));
    for (int i = 0; i < p; ++i) birds.push_back(logic->mkUninterpFun(hole, {logic->mkVar(U, ("b" + std::to_string(i)).c_str())}));
    for (int i = 0; i < p; ++i) {
        vec<PTRef> options;
        for (int j = 0; j < h; ++j) options.push(logic->mkEq(birds[i], holes[j]));
        in.assertions.push_back(logic->mkOr(std::move(options)));
        for (int k = i + 1; k < p; ++k) in.assertions.push_back(logic->mkNot(logic->mkEq(birds[i], birds[k])));
    }
    in.truth = p > h ? "unsat" : "sat";
}

// 4: random rational system with Boolean structure; the uninterrupted answer is the ground truth
void rationalMix(Instance & in, unsigned seed) {
    auto * logic = new ArithLogic(Logic_t::QF_LRA);
    in.logic.reset(logic);
    std::mt19937 rng(seed);
    std::vector<PTRef> vars;
    for (int j = 0; j < 6; ++j) vars.push_back(logic->mkRealVar(("r" + std::to_string(j)).c_str()));
    auto atom = [&]() {
        vec<PTRef> sum;
        for (int j = 0; j < 6; ++j) {
            int c = int(rng() % 7) - 3;
            if (c != 0) sum.push(logic->mkTimes(logic->mkRealConst(Number(c)), vars[j]));
        }
        if (sum.size() == 0) sum.push(vars[0]);
        PTRef lhs = logic->mkPlus(std::move(sum));
        PTRef rhs = logic->mkRealConst(Number(int(rng() % 21) - 10));
        return rng() % 2 ? logic->mkLeq(lhs, rhs) : logic->mkGeq(lhs, rhs);
    };
    for (int k = 0; k < 40; ++k) {
        vec<PTRef> lits;
        for (int l = 0; l < 3; ++l) { PTRef a = atom(); lits.push(rng() % 2 ? logic->mkNot(a) : a); }
        in.assertions.push_back(logic->mkOr(std::move(lits)));
    }
    in.truth = "";
}

std::unique_ptr<Instance> build(int family, unsigned seed) {
    auto in = std::make_unique<Instance>();
    switch (family) {
        case 0: knapsack(*in, false); break;
        case 1: knapsack(*in, true); break;
        case 2: pigeons(*in, 6, 5); break;
        case 3: pigeons(*in, 6, 6); break;
        default: rationalMix(*in, seed); break;
    }
    in->config.setProduceModels();
    in->solver = std::make_unique<MainSolver>(*in->logic, in->config, "c25");
    for (PTRef a : in->assertions) in->solver->addAssertion(a);
    return in;
}

bool modelHolds(Instance & in) {
    auto model = in.solver->getModel();
    for (PTRef a : in.assertions) {
        if (model->evaluate(a) != in.logic->getTerm_true()) return false;
    }
    return true;
}
} // namespace

int main(int argc, char ** argv) {
    unsigned seed = argc > 1 ? std::atoi(argv[1]) : 1;
    int trials = argc > 2 ? std::atoi(argv[2]) : 40;
    bool hook = argc > 3 ? std::string(argv[3]) == "hook" : true;
    using Clock = std::chrono::steady_clock;
    std::mt19937 rng(seed);
    std::map<std::string, long> stat;

    // uninterrupted reference runs: truth, number of logical moments, time scale
    constexpr int families = 5;
    std::string truth[families];
    long total[families];
    double seconds[families];
    unsigned mixSeed = seed * 7 + 3;
    for (int f = 0; f < families; ++f) {
        auto in = build(f, mixSeed);
        moments.store(0);
        target.store(-1);
        verif::stopPointCallback.store(onStopPoint);
        auto begin = Clock::now();
        sstat res = in->solver->check();
        seconds[f] = std::chrono::duration<double>(Clock::now() - begin).count();
        verif::stopPointCallback.store(nullptr);
        total[f] = moments.load();
        truth[f] = in->truth.empty() ? statusName(res) : in->truth;
        if (statusName(res) != truth[f]) {
            std::printf("WRONG -1 %d none k=-1 where=0 | got=%s | truth=%s\n", f, statusName(res).c_str(), truth[f].c_str());
        }
        if (res == s_True and not modelHolds(*in)) {
            std::printf("WRONG -1 %d none k=-1 where=0 | got=sat:model-bad | truth=%s\n", f, truth[f].c_str());
        }
        std::printf("REF %d truth=%s moments=%ld seconds=%.4f\n", f, truth[f].c_str(), total[f], seconds[f]);
    }

    for (int t = 0; t < trials; ++t) {
        int f = rng() % families;
        resetGlobalStop();
        auto in = build(f, mixSeed);
        bool const global = t % 2 == 1;
        long k = -1;
        moments.store(0);
        reachedWhere.store(0);
        if (hook) {
            long span = total[f] + 2;
            // small k (preprocessing, first iterations), the very end (model construction), and everything between
            unsigned r = rng() % 10;
            k = r < 2 ? long(rng() % 4) : r < 4 ? std::max<long>(0, total[f] - 1 - long(rng() % 4)) : long(rng() % span);
            target.store(k);
            verif::stopPointCallback.store(onStopPoint);
        }
        std::atomic<bool> done{false};
        sstat res = s_Error;
        std::string extra;
        std::thread worker([&] {
            res = in->solver->check();
            if (res == s_True) { extra = modelHolds(*in) ? ":model-ok" : ":model-bad"; }
            done.store(true, std::memory_order_relaxed);
        });
        if (hook) {
            while (reachedWhere.load(std::memory_order_relaxed) == 0 and not done.load(std::memory_order_relaxed)) {}
        } else {
            double fraction = (rng() % 1000) / 1000.0;
            std::this_thread::sleep_for(std::chrono::duration<double>(fraction * seconds[f]));
        }
        bool const inTime = not done.load(std::memory_order_relaxed);
        if (global) { notifyGlobalStop(); } else { in->solver->notifyStop(); }
        worker.join();
        verif::stopPointCallback.store(nullptr);
        int where = reachedWhere.load();
        std::string got = statusName(res) + extra;
        stat["trials"]++;
        stat[std::string("family_") + std::to_string(f)]++;
        stat[global ? "kind_global" : "kind_solver"]++;
        stat[inTime ? "request_during_check" : "request_after_check"]++;
        stat["result_" + statusName(res)]++;
        if (hook and where) stat["moment_where_" + std::to_string(where)]++;
        bool ok = res == s_Undef or (statusName(res) == truth[f] and extra != ":model-bad");
        if (not ok) {
            std::printf("WRONG %d %d %s k=%ld where=%d | got=%s | truth=%s\n", t, f, global ? "global" : "solver", k, where, got.c_str(),
                        truth[f].c_str());
        }
    }
    resetGlobalStop();
    for (auto const & kv : stat) std::printf("STAT %s %ld\n", kv.first.c_str(), kv.second);
    std::printf("DONE\n");
    return 0;
}
