"""Dispatch: ./run Cxx --tier quick|thorough [--replay f] ; ./run --setup"""
import importlib
import json
import os
import sys

from . import build, core

# property -> (module, flavours needed {flavour: [harnesses]})
REGISTRY = {
    "C01": ("answers", {"rel": []}),
    "C02": ("answers", {"rel": []}),
    "C03": ("models", {"rel": []}),
    "C04": ("history", {"rel": []}),
    "C05": ("history", {"rel": []}),
    "C06": ("cores", {"rel": []}),
    "C07": ("cores", {"rel": []}),
    "C08": ("itp", {"rel": []}),
    "C09": ("itp", {"rel": []}),
    "C10": ("proofs", {"rel": []}),
    "C11": ("trace", {"rel": []}),
    "C12": ("trace", {"rel": []}),
    "C13": ("trace", {"rel": []}),
    "C14": ("apiharness", {"rel": ["h_terms"]}),
    "C15": ("apiharness", {"asan": ["h_rational"]}),
    "C16": ("apiharness", {"asan": ["h_numparse"]}),
    "C27": ("apiharness", {"asan": ["h_intround"]}),
    "C17": ("printing", {"rel": []}),
    "C18": ("procmon", {"asan": []}),
    "C19": ("rejected", {"rel": []}),
    "C20": ("procmon", {"rel": []}),
    "C21": ("scopes", {"rel": []}),
    "C22": ("tsolver", {"rel": ["h_tsolver"]}),
    "C23": ("procmon", {"rel": []}),
    "C24": ("threads", {"tsan": ["h_threads"], "asan": ["h_threads"], "rel": ["h_threads"]}),
    "C25": ("threads", {"tsan": ["h_stop"], "rel": ["h_stop"]}),
    "C26": ("trace", {"rel": []}),
    "C28": ("apiharness", {"rel": ["h_terms"]}),
    "C29": ("history", {"rel": []}),
    "C30": ("history", {"rel": []}),
}


def setup():
    from . import refs
    ok = refs.selftest()
    if not ok:
        print("SETUP: reference solver self-test failed")
        return 2
    flav = {}
    for _, (mod, fl) in REGISTRY.items():
        for f, hs in fl.items():
            flav.setdefault(f, set()).update(hs)
    for f, hs in sorted(flav.items()):
        build.ensure(f, sorted(hs))
    print("SETUP ok: flavours", ", ".join(sorted(flav)))
    return 0


def main(argv):
    if not argv:
        print(__doc__)
        return 2
    if argv[0] == "--setup":
        return setup()
    prop = argv[0]
    tier = os.environ.get("VERIF_TIER", "quick")
    if tier not in ("quick", "thorough"):
        tier = "quick"
    replay = None
    i = 1
    while i < len(argv):
        if argv[i] == "--tier":
            tier = argv[i + 1]
            i += 2
        elif argv[i] == "--replay":
            replay = argv[i + 1]
            i += 2
        else:
            print("unknown argument", argv[i])
            return 2
    if prop not in REGISTRY:
        print("unknown property", prop)
        return 2
    os.environ["VERIF_TIER_EFFECTIVE"] = tier
    modname, flav = REGISTRY[prop]
    try:
        for f, hs in flav.items():
            build.ensure(f, hs)
    except build.BuildError as e:
        print("BUILD-ERROR:", e)
        return 2
    mod = importlib.import_module("vlib.checks." + modname)
    if replay:
        with open(replay) as f:
            w = json.load(f)
        rf = mod.replay(prop) if hasattr(mod, "replay") else getattr(mod, prop.lower() + "_replay")
        vs = rf(w.get("witness", w))
        for v in vs:
            print("VIOLATION property=%s replay=%s" % (prop, replay))
            print("  [%s] %s" % (v.key(), v.detail[:2000]))
        if not vs:
            print("replay: no violation")
        return 1 if vs else 0
    return mod.main(prop, tier)


if __name__ == "__main__":
    sys.exit(main(sys.argv[1:]))
