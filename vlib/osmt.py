"""Running the opensmt executable on generated scripts."""
import os
import resource
import signal
import subprocess
import tempfile

from . import build

SCRATCH = os.environ.get("VERIF_SCRATCH") or os.path.join(build.VERIF, ".scratch")

SAN_ENV = {
    "ASAN_OPTIONS": "abort_on_error=1:detect_leaks=0:allocator_may_return_null=1:handle_abort=1",
    "UBSAN_OPTIONS": "print_stacktrace=1:halt_on_error=1",
}


def scratch_dir(tag):
    d = os.path.join(SCRATCH, tag)
    os.makedirs(d, exist_ok=True)
    return d


def _limits(cpu_s, mem_mb):
    def f():
        resource.setrlimit(resource.RLIMIT_CPU, (cpu_s, cpu_s + 1))
        if mem_mb:
            try:
                resource.setrlimit(resource.RLIMIT_AS, (mem_mb << 20, mem_mb << 20))
            except ValueError:
                pass
        resource.setrlimit(resource.RLIMIT_CORE, (0, 0))
    return f


class Run:
    __slots__ = ("out", "err", "rc", "timeout", "signal", "cpu", "cpu_exhausted")

    def __init__(self, out, err, rc, timeout):
        self.out = out
        self.err = err
        self.rc = rc
        self.timeout = timeout
        self.cpu_exhausted = False
        self.signal = -rc if rc is not None and rc < 0 else 0

    def crashed(self):
        return self.signal not in (0, signal.SIGXCPU, signal.SIGKILL) or \
            (self.err and ("AddressSanitizer" in self.err or "runtime error:" in self.err
                           or "terminate called" in self.err or "Assertion" in self.err))


def run_opensmt(text, flavour="rel", args=(), cpu_s=20, mem_mb=4096, pipe=False, env=None,
                path=None, binary=None, wall_s=None, keep=False):
    """Run opensmt on script text (file mode by default). Returns Run."""
    exe = binary or build.opensmt_path(flavour)
    e = dict(os.environ)
    e.update(SAN_ENV)
    if env:
        e.update(env)
    if flavour == "asan":
        mem_mb = 0   # ASan reserves huge virtual ranges
    tmp = None
    try:
        if pipe:
            cmd = [exe, "-p"] + list(args)
            inp = text.encode() if isinstance(text, str) else text
        else:
            if path is None:
                fd, tmp = tempfile.mkstemp(suffix=".smt2", dir=scratch_dir("scripts"))
                with os.fdopen(fd, "wb") as f:
                    f.write(text.encode() if isinstance(text, str) else text)
                path = tmp
            cmd = [exe] + list(args) + [path]
            inp = None
        try:
            # prlimit instead of preexec_fn: lets subprocess use vfork/posix_spawn (forking a python
            # process with z3 loaded costs milliseconds of system time per case)
            lim = ["prlimit", "--cpu=%d:%d" % (cpu_s, cpu_s + 1), "--core=0"]
            if mem_mb:
                lim.append("--as=%d" % (mem_mb << 20))
            p = subprocess.run(lim + cmd, input=inp, stdout=subprocess.PIPE, stderr=subprocess.PIPE,
                               env=e, timeout=wall_s or (cpu_s * 4 + 20))
            rc, out, err, to = p.returncode, p.stdout, p.stderr, False
        except subprocess.TimeoutExpired as ex:
            rc, out, err, to = None, ex.stdout or b"", ex.stderr or b"", True
        if rc is not None and rc in (-signal.SIGXCPU, -signal.SIGKILL):
            to = True
        r = Run(out.decode("utf-8", "replace"), err.decode("utf-8", "replace"), rc, to)
        # only an exhausted CPU budget is evidence about the program; a wall-clock watchdog or a SIGKILL (memory pressure,
        # hard limit) on a loaded machine is not
        r.cpu_exhausted = rc == -signal.SIGXCPU
        return r
    finally:
        if tmp and not keep:
            try:
                os.remove(tmp)
            except OSError:
                pass
