"""Typed term ASTs for generated SMT-LIB scripts + printers.

Sorts: 'Bool' 'Int' 'Real', uninterpreted sort names (str), ('Array', I, E).
A term is an instance of T: op, args, sort, val.
  op == 'var'   : val = symbol name (declared constant, let-bound or formal)
  op == 'num'   : val = Fraction, txt = literal text as it goes to OpenSMT
  op == 'true' / 'false'
  op == '!'     : args=(t,), val = name           (named term)
  op == 'let'   : val = [(name, T), ...], args=(body,)
  otherwise     : SMT-LIB operator or declared/defined function name applied to args
"""
from fractions import Fraction


class T:
    __slots__ = ("op", "args", "sort", "val", "txt")

    def __init__(self, op, args=(), sort="Bool", val=None, txt=None):
        self.op = op
        self.args = tuple(args)
        self.sort = sort
        self.val = val
        self.txt = txt

    def __repr__(self):
        return to_smt(self)


TRUE = T("true")
FALSE = T("false")


def sort_str(s):
    if isinstance(s, tuple):
        return "(" + " ".join(sort_str(x) for x in s) + ")"
    return s


def mkvar(name, sort):
    return T("var", (), sort, name)


def canon_num(v, sort):
    """Canonical SMT-LIB text of rational v at the given sort (strict, for references)."""
    v = Fraction(v)
    if sort == "Int":
        assert v.denominator == 1
        n = v.numerator
        return str(n) if n >= 0 else "(- %d)" % (-n)
    n, d = v.numerator, v.denominator
    if d == 1:
        s = "%d.0" % abs(n)
    else:
        s = "(/ %d.0 %d.0)" % (abs(n), d)
    return s if n >= 0 else "(- %s)" % s


def mknum(v, sort, txt=None):
    v = Fraction(v)
    return T("num", (), sort, v, txt if txt is not None else canon_num(v, sort))


def qsym(name):
    """Quote a symbol if it needs it (generator-side names only)."""
    from .sexpr import is_simple_symbol
    if is_simple_symbol(name) and name not in _RESERVED and not name[0] == "-":
        return name
    return "|" + name + "|"


_RESERVED = {"let", "par", "as", "forall", "exists", "assert", "push", "pop", "!", "_", "define-fun", "declare-fun", "check-sat",
             "set-logic", "set-option", "exit", "NUMERAL", "DECIMAL", "STRING", "declare-sort", "define-sort", "declare-const",
             "get-model", "get-value", "echo", "get-info", "set-info", "get-proof", "get-unsat-core", "get-assignment",
             "get-interpolants", "simplify", "get-option", "theory"}


def to_smt(t, mode="osmt", strip_names=False, rename=None):
    """mode 'osmt': literal text as generated; 'ref': canonical numbers, names stripped."""
    if mode == "ref":
        strip_names = True
    op = t.op
    if op == "var":
        n = t.val
        if rename and n in rename:
            n = rename[n]
        return qsym(n)
    if op == "num":
        return t.txt if mode == "osmt" else canon_num(t.val, t.sort)
    if op in ("true", "false"):
        return op
    if op == "!":
        inner = to_smt(t.args[0], mode, strip_names, rename)
        if strip_names:
            return inner
        return "(! %s :named %s)" % (inner, qsym(t.val))
    if op == "let":
        bs = " ".join("(%s %s)" % (qsym(n), to_smt(b, mode, strip_names, rename)) for n, b in t.val)
        return "(let (%s) %s)" % (bs, to_smt(t.args[0], mode, strip_names, rename))
    name = op
    if rename and name in rename:
        name = rename[name]
    if not t.args:
        return qsym(name)
    head = name if name in BUILTIN_OPS else qsym(name)
    return "(" + head + " " + " ".join(to_smt(a, mode, strip_names, rename) for a in t.args) + ")"


BUILTIN_OPS = {"not", "and", "or", "=>", "xor", "ite", "=", "distinct", "+", "-", "*", "/",
               "div", "mod", "<", "<=", ">", ">=", "select", "store", "abs", "to_real", "to_int"}


def subterms(t):
    yield t
    if t.op == "let":
        for _, b in t.val:
            yield from subterms(b)
    for a in t.args:
        yield from subterms(a)


def names_in(t):
    """(name, term) for every :named annotation inside t (outermost first)."""
    out = []
    for s in subterms(t):
        if s.op == "!":
            out.append((s.val, s.args[0]))
    return out


def strip_named(t):
    """Term with all :named annotations removed."""
    if t.op == "!":
        return strip_named(t.args[0])
    if t.op == "let":
        return T("let", (strip_named(t.args[0]),), t.sort, [(n, strip_named(b)) for n, b in t.val])
    if not t.args:
        return t
    return T(t.op, tuple(strip_named(a) for a in t.args), t.sort, t.val, t.txt)


def free_symbols(t, bound=frozenset()):
    """User symbols (declared constants, functions, defined functions) occurring in t."""
    out = set()
    if t.op == "var":
        if t.val not in bound:
            out.add(t.val)
        return out
    if t.op == "let":
        for _, b in t.val:
            out |= free_symbols(b, bound)
        out |= free_symbols(t.args[0], bound | {n for n, _ in t.val})
        return out
    if t.op not in BUILTIN_OPS and t.op not in ("num", "true", "false", "!"):
        out.add(t.op)
    for a in t.args:
        out |= free_symbols(a, bound)
    return out


def size(t):
    return sum(1 for _ in subterms(t))


# ---- JSON (witness files) ---------------------------------------------------

def sort_to_json(s):
    return list(sort_to_json(x) for x in s) if isinstance(s, tuple) else s


def sort_from_json(s):
    return tuple(sort_from_json(x) for x in s) if isinstance(s, list) else s


def term_to_json(t):
    d = {"op": t.op, "sort": sort_to_json(t.sort)}
    if t.args:
        d["args"] = [term_to_json(a) for a in t.args]
    if t.op == "num":
        d["val"] = [t.val.numerator, t.val.denominator]
        d["txt"] = t.txt
    elif t.op == "let":
        d["val"] = [[n, term_to_json(b)] for n, b in t.val]
    elif t.val is not None:
        d["val"] = t.val
    return d


def term_from_json(d):
    op = d["op"]
    args = tuple(term_from_json(a) for a in d.get("args", ()))
    sort = sort_from_json(d["sort"])
    if op == "num":
        return T(op, args, sort, Fraction(d["val"][0], d["val"][1]), d.get("txt"))
    if op == "let":
        return T(op, args, sort, [(n, term_from_json(b)) for n, b in d["val"]])
    return T(op, args, sort, d.get("val"))


def cmd_to_json(c):
    out = {}
    for k, v in c.items():
        if isinstance(v, T):
            out[k] = {"__t": term_to_json(v)}
        elif k == "terms":
            out[k] = [{"__t": term_to_json(x)} for x in v]
        elif k in ("args",):
            out[k] = [sort_to_json(s) for s in v]
        elif k == "ret":
            out[k] = sort_to_json(v)
        elif k == "params":
            out[k] = [[n, sort_to_json(s)] for n, s in v]
        else:
            out[k] = v
    return out


def cmd_from_json(d):
    out = {}
    for k, v in d.items():
        if isinstance(v, dict) and "__t" in v:
            out[k] = term_from_json(v["__t"])
        elif k == "terms":
            out[k] = [term_from_json(x["__t"]) for x in v]
        elif k == "args":
            out[k] = [sort_from_json(s) for s in v]
        elif k == "ret":
            out[k] = sort_from_json(v)
        elif k == "params":
            out[k] = [(n, sort_from_json(s)) for n, s in v]
        else:
            out[k] = v
    return out
