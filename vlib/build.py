"""Build flavours of /repo (working tree) under /verif/.build/<flavour>.

Every check calls ensure(<flavour>) first: ninja decides what is stale, so an
edit in /repo is always picked up.  Flag changes wipe the tree (stamp file).
Harnesses (C++ sources in /verif/harness) are compiled against the flavour's
libopensmt.a by the same step with a tiny make-like dependency check (-MMD).
"""
import fcntl
import hashlib
import os
import shutil
import subprocess
import sys
import time

VERIF = os.path.dirname(os.path.dirname(os.path.abspath(__file__)))
REPO = os.environ.get("VERIF_REPO", "/repo")
BUILD_ROOT = os.environ.get("VERIF_BUILD_ROOT") or os.path.join(VERIF, ".build")
GUARD = "OPENSMT_VERIF_HOOKS"

COMMON = "-DNDEBUG -D%s -Wno-error" % GUARD
FLAVOURS = {
    "rel": "-O2 -g1 " + COMMON,
    "asan": "-O1 -g1 -fno-omit-frame-pointer -fsanitize=address,undefined "
            "-fno-sanitize-recover=all " + COMMON,
    "tsan": "-O1 -g1 -fno-omit-frame-pointer -fsanitize=thread " + COMMON,
}
# harness name -> (source file, flavours it is built for)
HARNESSES = {
    "rupcheck": ("rupcheck.cc", ["rel"]),
    "h_rational": ("h_rational.cc", ["asan"]),
    "h_numparse": ("h_numparse.cc", ["asan"]),
    "h_terms": ("h_terms.cc", ["asan", "rel"]),
    "h_tsolver": ("h_tsolver.cc", ["rel", "asan"]),
    "h_intround": ("h_intround.cc", ["asan"]),
    "h_threads": ("h_threads.cc", ["tsan", "asan", "rel"]),
    "h_stop": ("h_stop.cc", ["tsan", "rel"]),
    "chunkwriter": ("chunkwriter.cc", ["rel"]),
}
STANDALONE = {"rupcheck", "chunkwriter"}  # do not link libopensmt


class BuildError(Exception):
    pass


def _run(cmd, log, cwd=None):
    with open(log, "ab") as f:
        f.write(("\n$ %s\n" % " ".join(cmd)).encode())
        f.flush()
        p = subprocess.run(cmd, stdout=f, stderr=subprocess.STDOUT, cwd=cwd)
    return p.returncode


def flavour_dir(flavour):
    return os.path.join(BUILD_ROOT, flavour)


def opensmt_path(flavour):
    return os.path.join(flavour_dir(flavour), "opensmt")


def harness_path(flavour, name):
    return os.path.join(flavour_dir(flavour), "harness", name)


def ensure(flavour, harnesses=(), quiet=False):
    """Configure (if needed) and build lib+exe of a flavour, then the harnesses."""
    flags = FLAVOURS[flavour]
    d = flavour_dir(flavour)
    os.makedirs(BUILD_ROOT, exist_ok=True)
    lock = open(os.path.join(BUILD_ROOT, flavour + ".lock"), "w")
    fcntl.flock(lock, fcntl.LOCK_EX)
    try:
        t0 = time.time()
        log = os.path.join(BUILD_ROOT, flavour + ".log")
        if os.path.exists(log) and os.path.getsize(log) > 4_000_000:
            os.remove(log)
        stamp = os.path.join(d, ".verif_flags")
        want = flags + "|" + REPO
        have = open(stamp).read() if os.path.exists(stamp) else None
        if have != want:
            shutil.rmtree(d, ignore_errors=True)
            os.makedirs(d)
            rc = _run(["cmake", "-G", "Ninja", "-S", REPO, "-B", d,
                       "-DCMAKE_BUILD_TYPE=Verif", "-DPACKAGE_TESTS=OFF",
                       "-DBUILD_SHARED_LIBS=OFF", "-DBUILD_STATIC_LIBS=ON",
                       "-DCMAKE_CXX_FLAGS=" + flags], log)
            if rc != 0:
                raise BuildError("cmake configure failed for %s, see %s" % (flavour, log))
            with open(stamp, "w") as f:
                f.write(want)
        rc = _run(["cmake", "--build", d, "-j", str(os.cpu_count() or 8)], log)
        if rc != 0:
            raise BuildError("build failed for %s, see %s" % (flavour, log))
        for h in harnesses:
            _build_harness(flavour, h, log)
        if not quiet:
            sys.stderr.write("[build] %s up to date (%.1fs)\n" % (flavour, time.time() - t0))
    finally:
        fcntl.flock(lock, fcntl.LOCK_UN)
        lock.close()
    return d


def _find_lib(d):
    for root, _, files in os.walk(d):
        for f in files:
            if f == "libopensmt.a":
                return os.path.join(root, f)
    raise BuildError("libopensmt.a not found in " + d)


def _build_harness(flavour, name, log):
    src = os.path.join(VERIF, "harness", HARNESSES[name][0])
    d = flavour_dir(flavour)
    outdir = os.path.join(d, "harness")
    os.makedirs(outdir, exist_ok=True)
    out = os.path.join(outdir, name)
    depf = out + ".d"
    lib = None if name in STANDALONE else _find_lib(d)
    flags = FLAVOURS[flavour]
    sig = hashlib.sha1((flags + src).encode()).hexdigest()
    sigf = out + ".sig"
    stale = True
    if os.path.exists(out) and os.path.exists(depf) and os.path.exists(sigf) \
            and open(sigf).read() == sig:
        mt = os.path.getmtime(out)
        deps = open(depf).read().replace("\\\n", " ").split(":", 1)[1].split()
        if lib:
            deps.append(lib)
        stale = any((not os.path.exists(x)) or os.path.getmtime(x) > mt for x in deps)
    if not stale:
        return out
    cmd = ["g++", "-std=c++20"] + flags.split() + ["-MMD", "-MF", depf,
           "-I", os.path.join(REPO, "src"), "-I", os.path.join(VERIF, "harness"),
           src, "-o", out]
    if lib:
        cmd += [lib, "-lgmpxx", "-lgmp", "-lpthread"]
    else:
        cmd += ["-lpthread"]
    rc = _run(cmd, log)
    if rc != 0:
        raise BuildError("harness %s failed to build for %s, see %s" % (name, flavour, log))
    with open(sigf, "w") as f:
        f.write(sig)
    return out


if __name__ == "__main__":
    args = sys.argv[1:]
    if not args:
        print("usage: build.py <flavour> [harness...]")
        sys.exit(2)
    try:
        ensure(args[0], args[1:])
    except BuildError as e:
        print("BUILD-ERROR", e)
        sys.exit(2)
