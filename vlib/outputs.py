"""Parsers / converters for what opensmt prints (models, values, cores, interpolants)."""
import re
from fractions import Fraction

from . import sexpr, gen
from .terms import sort_str, to_smt, qsym


class OutputError(Exception):
    pass


def sort_from_sexpr(s):
    if isinstance(s, str):
        return sexpr.unquote(s) if s.startswith("|") else s
    return tuple(sort_from_sexpr(x) for x in s)


class RefCtx:
    """Collects abstract values (as @k S) -> fresh constants, renames solver-internal symbols."""

    def __init__(self):
        self.abstract = {}     # (name, sortstr) -> refname
        self.internal = {}     # internal symbol -> refname

    def abstract_name(self, name, sort):
        key = (name, sort_str(sort))
        if key not in self.abstract:
            self.abstract[key] = "av!%d" % len(self.abstract)
        return self.abstract[key]

    def decls(self):
        """Declarations + pairwise distinctness of abstract values per sort."""
        lines = []
        by_sort = {}
        for (name, s), ref in self.abstract.items():
            lines.append("(declare-fun %s () %s)" % (ref, s))
            by_sort.setdefault(s, []).append(ref)
        for s, refs_ in by_sort.items():
            if len(refs_) > 1:
                lines.append("(assert (distinct %s))" % " ".join(refs_))
        return lines


def term_to_ref(x, ctx):
    """Printed opensmt term (sexpr) -> reference text."""
    if isinstance(x, str):
        if x.startswith("@") or x.startswith("."):
            if x not in ctx.internal:
                ctx.internal[x] = "int!%d" % len(ctx.internal)
            return ctx.internal[x]
        return x
    if len(x) == 3 and x[0] == "as" and isinstance(x[1], str) and x[1].startswith("@"):
        return ctx.abstract_name(x[1], sort_from_sexpr(x[2]))
    if len(x) == 3 and x[0] == "as":
        return "(as %s %s)" % (term_to_ref(x[1], ctx), sexpr.dump(x[2]))
    return "(" + " ".join(term_to_ref(y, ctx) for y in x) + ")"


def parse_number(x):
    """Numeric constant as printed by opensmt: n | n.d | (- c) | (/ a b) -> Fraction, else None."""
    if isinstance(x, str):
        if sexpr.is_numeral(x) or (x.isdigit()):
            return Fraction(int(x))
        if sexpr.is_decimal(x):
            return Fraction(x)
        return None
    if len(x) == 2 and x[0] == "-":
        v = parse_number(x[1])
        return -v if v is not None else None
    if len(x) == 3 and x[0] == "/":
        a, b = parse_number(x[1]), parse_number(x[2])
        if a is None or b is None or b == 0:
            return None
        return a / b
    return None


def value_to_ref(x, sort, ctx):
    """A printed *value* (constant or ite-chain of constants) at a known sort -> reference text with
    numerals canonical for the sort (z3 rejects `(define-fun r () Real 0)`)."""
    if sort in ("Int", "Real"):
        v = parse_number(x)
        if v is not None:
            if sort == "Int" and v.denominator != 1:
                return term_to_ref(x, ctx)      # let the reference complain
            from .terms import canon_num
            return canon_num(v, sort)
        if isinstance(x, list) and len(x) == 4 and x[0] == "ite":
            return "(ite %s %s %s)" % (term_to_ref(x[1], ctx), value_to_ref(x[2], sort, ctx), value_to_ref(x[3], sort, ctx))
    return term_to_ref(x, ctx)


def parse_model(text):
    """-> list of dict(name, params[(n, sort)], ret, body sexpr)."""
    try:
        top = sexpr.parse_one(text)
    except sexpr.SexprError as e:
        raise OutputError("model is not one s-expression: %s" % e)
    out = []
    for e in top:
        if not (isinstance(e, list) and len(e) == 5 and e[0] == "define-fun" and isinstance(e[2], list)):
            raise OutputError("unexpected model entry: %s" % sexpr.dump(e)[:200])
        params = []
        for p in e[2]:
            if not (isinstance(p, list) and len(p) == 2):
                raise OutputError("bad parameter list in %s" % sexpr.dump(e)[:200])
            params.append((p[0], sort_from_sexpr(p[1])))
        out.append({"name": sexpr.unquote(e[1]), "rawname": e[1], "params": params,
                    "ret": sort_from_sexpr(e[3]), "body": e[4]})
    return out


def model_defs_text(model, ctx):
    lines = []
    for d in model:
        ps = " ".join("(%s %s)" % (n, sort_str(s)) for n, s in d["params"])
        lines.append("(define-fun %s (%s) %s %s)" % (d["rawname"], ps, sort_str(d["ret"]), value_to_ref(d["body"], d["ret"], ctx)))
    return lines


def model_problem(cmds, model, extra_lines):
    """Closed reference problem: sorts, abstract values, model definitions, extra assertion lines."""
    ctx = RefCtx()
    defs = model_defs_text(model, ctx)
    extra = [e(ctx) if callable(e) else e for e in extra_lines]
    lines = ["(set-logic ALL)"]
    for c in cmds:
        if c["k"] == "declare-sort":
            lines.append(gen.cmd_text(c, "ref"))
    defined = {d["name"] for d in model}
    for c in cmds:
        if c["k"] == "declare-fun" and c["name"] not in defined:
            lines.append(gen.cmd_text(c, "ref"))
    lines += ctx.decls()
    lines += defs
    lines += extra
    lines.append("(check-sat)")
    return "\n".join(lines) + "\n"


def parse_value_response(text, nterms):
    """((t v) (t v) ...) -> list of value sexprs (the terms are echoed by the solver; we use ours)."""
    try:
        top = sexpr.parse_one(text)
    except sexpr.SexprError as e:
        raise OutputError("get-value response is not one s-expression: %s" % e)
    vals = []
    for e in top:
        if not (isinstance(e, list) and len(e) == 2):
            raise OutputError("get-value pair malformed: %s" % sexpr.dump(e)[:200])
        vals.append(e[1])
    if len(vals) != nterms:
        raise OutputError("get-value returned %d pairs for %d terms" % (len(vals), nterms))
    return vals


def parse_assignment(text):
    try:
        top = sexpr.parse_one(text)
    except sexpr.SexprError as e:
        raise OutputError("get-assignment response is not one s-expression: %s" % e)
    out = []
    for e in top:
        if not (isinstance(e, list) and len(e) == 2 and isinstance(e[0], str) and isinstance(e[1], str)):
            raise OutputError("assignment pair malformed: %s" % sexpr.dump(e)[:200])
        out.append((sexpr.unquote(e[0]), e[1]))
    return out


def parse_core(text):
    """Named core: list of names; full core: list of formula sexprs."""
    try:
        top = sexpr.parse_one(text)
    except sexpr.SexprError as e:
        raise OutputError("unsat core is not one s-expression: %s" % e)
    return top


def parse_interpolants(text):
    try:
        top = sexpr.parse_one(text)
    except sexpr.SexprError as e:
        raise OutputError("interpolant response is not one s-expression: %s" % e)
    return top


def symbols_of(x, acc=None):
    """All symbol atoms (non-numeric) in a printed term."""
    if acc is None:
        acc = set()
    if isinstance(x, str):
        if not (x[0].isdigit() or x in ("true", "false")):
            acc.add(sexpr.unquote(x))
    else:
        if len(x) == 3 and x[0] == "as":
            symbols_of(x[1], acc)
        else:
            for y in x:
                symbols_of(y, acc)
    return acc
