"""Seeded generators: signatures, typed terms, scripts (command lists) per logic."""
import random
from fractions import Fraction

from .terms import T, TRUE, FALSE, mkvar, mknum, sort_str, to_smt, qsym

# logic -> (arith sorts, difference-logic-only, uf, arrays)
LOGICS = {
    "QF_UF_prop": dict(name="QF_UF", arith=(), dl=False, uf=False, arr=False),
    "QF_UF": dict(name="QF_UF", arith=(), dl=False, uf=True, arr=False),
    "QF_LRA": dict(name="QF_LRA", arith=("Real",), dl=False, uf=False, arr=False),
    "QF_LIA": dict(name="QF_LIA", arith=("Int",), dl=False, uf=False, arr=False),
    "QF_RDL": dict(name="QF_RDL", arith=("Real",), dl=True, uf=False, arr=False),
    "QF_IDL": dict(name="QF_IDL", arith=("Int",), dl=True, uf=False, arr=False),
    "QF_UFLRA": dict(name="QF_UFLRA", arith=("Real",), dl=False, uf=True, arr=False),
    "QF_UFLIA": dict(name="QF_UFLIA", arith=("Int",), dl=False, uf=True, arr=False),
    "QF_UFRDL": dict(name="QF_UFRDL", arith=("Real",), dl=True, uf=True, arr=False),
    "QF_UFIDL": dict(name="QF_UFIDL", arith=("Int",), dl=True, uf=True, arr=False),
    "QF_AX": dict(name="QF_AX", arith=(), dl=False, uf=False, arr=True),
    "QF_ALRA": dict(name="QF_ALRA", arith=("Real",), dl=False, uf=False, arr=True),
    "QF_ALIA": dict(name="QF_ALIA", arith=("Int",), dl=False, uf=False, arr=True),
    "QF_AUFLRA": dict(name="QF_AUFLRA", arith=("Real",), dl=False, uf=True, arr=True),
    "QF_AUFLIA": dict(name="QF_AUFLIA", arith=("Int",), dl=False, uf=True, arr=True),
    "QF_AUFLIRA": dict(name="QF_AUFLIRA", arith=("Int", "Real"), dl=False, uf=True, arr=True),
    "ALL": dict(name="ALL", arith=("Int", "Real"), dl=False, uf=True, arr=True),
}
ALL_LOGICS = list(LOGICS)
MODEL_LOGICS = ["QF_UF_prop", "QF_UF", "QF_LRA", "QF_LIA", "QF_RDL", "QF_IDL",
                "QF_UFLRA", "QF_UFLIA", "QF_UFRDL", "QF_UFIDL"]
ITP_LOGICS = ["QF_UF_prop", "QF_UF", "QF_LRA", "QF_LIA"]
NONINT_LOGICS = ["QF_UF_prop", "QF_UF", "QF_LRA", "QF_RDL", "QF_UFLRA", "QF_UFRDL",
                 "QF_AX", "QF_ALRA", "QF_AUFLRA"]

# logic embeddings for C05 (source -> more expressive logics that also accept it)
EMBED = {
    "QF_UF_prop": ["QF_UF", "QF_LRA", "QF_LIA", "QF_UFLRA", "QF_AX", "ALL", "QF_RDL", "QF_IDL"],
    "QF_UF": ["QF_UFLRA", "QF_UFLIA", "QF_AUFLIA", "ALL", "QF_UFIDL", "QF_AUFLIRA"],
    "QF_IDL": ["QF_LIA", "QF_UFIDL", "QF_UFLIA", "QF_ALIA", "ALL"],
    "QF_RDL": ["QF_LRA", "QF_UFRDL", "QF_UFLRA", "QF_ALRA", "ALL"],
    "QF_LRA": ["QF_UFLRA", "QF_ALRA", "QF_AUFLRA", "ALL"],
    "QF_LIA": ["QF_UFLIA", "QF_ALIA", "QF_AUFLIA", "ALL"],
    "QF_UFLRA": ["QF_AUFLRA", "ALL"],
    "QF_UFLIA": ["QF_AUFLIA", "ALL"],
    "QF_UFIDL": ["QF_UFLIA", "ALL"],
    "QF_UFRDL": ["QF_UFLRA", "ALL"],
    "QF_ALRA": ["QF_AUFLRA", "ALL"],
    "QF_ALIA": ["QF_AUFLIA", "ALL"],
    "QF_AUFLRA": ["ALL"],
    "QF_AUFLIA": ["ALL"],
    "QF_AUFLIRA": ["ALL"],
}

BOUNDARY = [2**31 - 1, 2**31, -2**31, -2**31 - 1, 2**32 - 1, 2**32, 2**53 - 1, 2**53, 2**53 + 1,
            2**63 - 1, 2**63, -2**63, -2**63 - 1, 2**64, 10**30]


class Sig:
    """A signature: declared sorts, constants and functions."""

    def __init__(self):
        self.sorts = []            # uninterpreted sort names
        self.consts = {}           # sort -> [names]
        self.funs = []             # (name, (argsorts), ret)
        self.decl_cmds = []

    def add_sort(self, name):
        self.sorts.append(name)
        self.decl_cmds.append({"k": "declare-sort", "name": name, "arity": 0})

    def add_const(self, name, sort, via_const=False):
        self.consts.setdefault(sort, []).append(name)
        self.decl_cmds.append({"k": "declare-fun", "name": name, "args": [], "ret": sort,
                               "const_form": via_const})

    def add_fun(self, name, args, ret):
        self.funs.append((name, tuple(args), ret))
        self.decl_cmds.append({"k": "declare-fun", "name": name, "args": list(args), "ret": ret})

    def funs_returning(self, sort):
        return [f for f in self.funs if f[2] == sort]

    def all_symbols(self):
        out = {}
        for s, ns in self.consts.items():
            for n in ns:
                out[n] = ((), s)
        for n, a, r in self.funs:
            out[n] = (a, r)
        return out


def make_sig(rng, logic, nvars=None, namer=None, rich=True):
    L = LOGICS[logic]
    sig = Sig()
    nm = namer or (lambda kind, i: "%s%d" % (kind, i))
    nb = rng.randint(1, 4) if L["arith"] or L["uf"] or L["arr"] else rng.randint(2, 6)
    for i in range(nb):
        sig.add_const(nm("b", i), "Bool", via_const=rng.random() < 0.2)
    for s in L["arith"]:
        k = nvars or rng.randint(2, 4)
        # NB: not "x": get-model registers formal arguments x<k> in the symbol table (a C04 finding);
        # only C04's generator uses x-names on purpose
        pref = "r" if s == "Real" else "i"
        for i in range(k):
            sig.add_const(nm(pref, i), s)
    usorts = []
    if L["uf"] or (L["arr"] and not L["arith"]):
        usorts = ["U"] if rng.random() < 0.7 else ["U", "V"]
        for u in usorts:
            sig.add_sort(nm(u, "") if namer else u)
        usorts = list(sig.sorts)
        for u in usorts:
            for i in range(rng.randint(2, 4)):
                sig.add_const(nm("u" if u == usorts[0] else "v", i), u)
    if L["uf"]:
        u = usorts[0]
        sig.add_fun(nm("f", 0), [u], u)
        if rng.random() < 0.6:
            sig.add_fun(nm("g", 0), [u, u], u)
        sig.add_fun(nm("p", 0), [u], "Bool")
        if rich and rng.random() < 0.25:
            sig.add_fun(nm("q", 0), [u, "Bool"], "Bool")
        for s in L["arith"]:
            sig.add_fun(nm("h" if s == "Real" else "k", 0), [s], s)
            if rng.random() < 0.5:
                sig.add_fun(nm("hu" if s == "Real" else "ku", 0), [u], s)
            if rng.random() < 0.4:
                sig.add_fun(nm("hp" if s == "Real" else "kp", 0), [s], "Bool")
            if rng.random() < 0.3:
                sig.add_fun(nm("hm" if s == "Real" else "km", 0), [s, u], u)
    if L["arr"]:
        if L["arith"]:
            combos = [(s, s) for s in L["arith"]]
            if usorts and rng.random() < 0.3:
                combos.append((L["arith"][0], usorts[0]))
        else:
            if len(usorts) == 1:
                combos = [(usorts[0], usorts[0])]
            else:
                combos = [(usorts[0], usorts[1])]
        for ci, (I, E) in enumerate(combos):
            asort = ("Array", I, E)
            for i in range(rng.randint(2, 3)):
                sig.add_const(nm("a%d_" % ci, i), asort)
    return sig


class TermGen:
    def __init__(self, rng, logic, sig, opts=None):
        self.rng = rng
        self.logic = logic
        self.L = LOGICS[logic]
        self.sig = sig
        o = dict(boundary=0.05, let=0.05, named=0.0, divmod=0.1, ite=0.12, distinct=0.08,
                 chain=0.08, defs=0.3, lit_variety=0.3, max_const=4, big_coeff=0.0,
                 shadow_let=0.0)
        if opts:
            o.update(opts)
        self.o = o
        self.defs = []        # visible defined functions: (name, params[(n,sort)], ret)
        self.name_counter = 0
        self.let_counter = 0
        self.name_prefix = "n"
        self.used_names = set()
        self.name_pool = []

    # ---- constants -------------------------------------------------------
    def const(self, sort):
        rng = self.rng
        if rng.random() < self.o["boundary"]:
            v = Fraction(rng.choice(BOUNDARY) + rng.choice([-1, 0, 0, 1]))
            if sort == "Real" and rng.random() < 0.3:
                v = v / rng.choice([2, 3, 2**31, 2**32 + 1])
        elif sort == "Int":
            v = Fraction(rng.randint(-self.o["max_const"], self.o["max_const"]))
        else:
            if rng.random() < 0.6:
                v = Fraction(rng.randint(-self.o["max_const"], self.o["max_const"]))
            else:
                v = Fraction(rng.randint(-9, 9), rng.choice([2, 3, 4, 5, 8, 10]))
        return self.num(v, sort)

    def num(self, v, sort):
        """A literal for value v with some variety in its textual form (all forms valid SMT-LIB
        that OpenSMT accepts at that sort)."""
        rng = self.rng
        v = Fraction(v)
        if rng.random() >= self.o["lit_variety"]:
            return mknum(v, sort)
        a = abs(v)
        if sort == "Int":
            txt = str(a.numerator)
        else:
            if a.denominator == 1:
                # never a bare numeral: in logics that also have Int (ALL, QF_AUFLIRA) it would denote an Int
                txt = rng.choice(["%d.0" % a.numerator, "%d.00" % a.numerator, "%d.000" % a.numerator])
            else:
                d = a.denominator
                dd = d
                while dd % 2 == 0:
                    dd //= 2
                while dd % 5 == 0:
                    dd //= 5
                if dd == 1 and rng.random() < 0.6:
                    # finite decimal expansion
                    k = 0
                    x = a
                    while x.denominator != 1:
                        x *= 10
                        k += 1
                    digits = str(x.numerator).rjust(k + 1, "0")
                    txt = digits[:-k] + "." + digits[-k:] + rng.choice(["", "0"])
                else:
                    txt = "(/ %d.0 %d.0)" % (a.numerator, a.denominator)
        if v < 0:
            txt = "(- %s)" % txt
        return mknum(v, sort, txt)

    # ---- helpers ---------------------------------------------------------
    def pick_var(self, sort):
        c = self.sig.consts.get(sort)
        if not c:
            return None
        return mkvar(self.rng.choice(c), sort)

    def array_sorts(self):
        return [s for s in self.sig.consts if isinstance(s, tuple)]

    def fresh_name(self):
        # popped names may be re-introduced (name_pool is filled by ScriptGen.history on pop)
        if self.name_pool and self.rng.random() < self.o.get("reuse_names", 0.4):
            return self.name_pool.pop(self.rng.randrange(len(self.name_pool)))
        self.name_counter += 1
        return "%s%d" % (self.name_prefix, self.name_counter)

    # ---- terms of a given sort ------------------------------------------
    def term(self, sort, d):
        if sort == "Bool":
            return self.boolean(d)
        if sort in ("Int", "Real"):
            return self.arith(sort, d)
        if isinstance(sort, tuple):
            return self.array(sort, d)
        return self.uterm(sort, d)

    def uterm(self, sort, d):
        rng = self.rng
        if d <= 0 or rng.random() < 0.35:
            return self.pick_var(sort)
        cands = [f for f in self.sig.funs_returning(sort)]
        r = rng.random()
        if r < self.o["ite"]:
            return T("ite", (self.boolean(d - 1), self.uterm(sort, d - 1), self.uterm(sort, d - 1)), sort)
        sel = [a for a in self.array_sorts() if a[2] == sort]
        if sel and rng.random() < 0.3:
            a = rng.choice(sel)
            return T("select", (self.array(a, d - 1), self.term(a[1], d - 1)), sort)
        if cands:
            n, args, _ = rng.choice(cands)
            return T(n, tuple(self.term(s, d - 1) for s in args), sort)
        return self.pick_var(sort)

    def array(self, sort, d):
        rng = self.rng
        if d <= 0 or rng.random() < 0.5:
            return self.pick_var(sort)
        r = rng.random()
        if r < 0.8:
            return T("store", (self.array(sort, d - 1), self.term(sort[1], d - 1), self.term(sort[2], d - 1)), sort)
        return T("ite", (self.boolean(d - 1), self.array(sort, d - 1), self.array(sort, d - 1)), sort)

    def dl_diff(self, sort):
        """x - y (distinct variables) or single variable for difference logic."""
        vs = self.sig.consts[sort]
        x, y = self.rng.sample(vs, 2) if len(vs) >= 2 else (vs[0], vs[0])
        return mkvar(x, sort), mkvar(y, sort)

    def arith(self, sort, d):
        rng = self.rng
        if self.L["dl"]:
            # DL terms are only built inside atoms; with UF, "variables" may be UF applications
            if self.L["uf"] and d > 0 and rng.random() < 0.4:
                cands = self.sig.funs_returning(sort)
                if cands:
                    n, args, _ = rng.choice(cands)
                    return T(n, tuple(self.term(s, d - 1) for s in args), sort)
            return self.pick_var(sort)
        if d <= 0:
            return self.pick_var(sort) if rng.random() < 0.75 else self.const(sort)
        r = rng.random()
        if r < 0.22:
            return self.pick_var(sort)
        if r < 0.30:
            return self.const(sort)
        if r < 0.50:
            n = rng.choice([2, 2, 3])
            return T("+", tuple(self.arith(sort, d - 1) for _ in range(n)), sort)
        if r < 0.60:
            n = rng.choice([1, 2, 2, 3])
            return T("-", tuple(self.arith(sort, d - 1) for _ in range(n)), sort)
        if r < 0.74:
            c = self.const(sort)
            if rng.random() < self.o["big_coeff"]:
                c = self.num(Fraction(rng.choice(BOUNDARY)), sort)
            a = self.arith(sort, d - 1)
            return T("*", (c, a) if rng.random() < 0.7 else (a, c), sort)
        if r < 0.74 + self.o["ite"]:
            return T("ite", (self.boolean(d - 1), self.arith(sort, d - 1), self.arith(sort, d - 1)), sort)
        if sort == "Real" and r < 0.90:
            c = self.const(sort)
            while c.val == 0:
                c = self.const(sort)
            return T("/", (self.arith(sort, d - 1), c), sort)
        if sort == "Int" and r < 0.74 + self.o["ite"] + self.o["divmod"]:
            c = self.const(sort)
            while c.val == 0:
                c = self.const(sort)
            return T(rng.choice(["div", "mod"]), (self.arith(sort, d - 1), c), sort)
        if self.L["uf"]:
            cands = self.sig.funs_returning(sort)
            if cands:
                n, args, _ = rng.choice(cands)
                return T(n, tuple(self.term(s, d - 1) for s in args), sort)
        sel = [a for a in self.array_sorts() if a[2] == sort]
        if sel:
            a = rng.choice(sel)
            return T("select", (self.array(a, d - 1), self.term(a[1], d - 1)), sort)
        return self.pick_var(sort)

    def dl_atom(self, sort):
        rng = self.rng
        x, y = self.dl_diff(sort)
        op = rng.choice(["<=", "<", ">=", ">", "=", "<=", ">=", "distinct"])
        c = self.const(sort)
        form = rng.random()
        if form < 0.6:
            return T(op, (T("-", (x, y), sort), c), "Bool")
        if form < 0.8:
            return T(op, (x, y), "Bool")
        if form < 0.9:
            return T(op, (c, T("-", (x, y), sort)), "Bool")
        # x - y op c written with the constant as a sum on the other side: x op y + c
        return T(op, (x, T("+", (y, c), sort)), "Bool")

    def atom(self, d):
        """A theory atom for the logic (Bool sort)."""
        rng = self.rng
        L = self.L
        kinds = []
        if L["arith"]:
            kinds += ["arith"] * 4
        if L["uf"] or (L["arr"] and not L["arith"]):
            kinds += ["ueq", "ueq"]
        if L["uf"]:
            kinds += ["pred"]
        if L["arr"]:
            kinds += ["aeq", "sel"]
        if not kinds:
            return self.pick_var("Bool")
        k = rng.choice(kinds)
        if k == "arith":
            sort = rng.choice(L["arith"])
            if L["dl"] and (not L["uf"] or rng.random() < 0.7):
                return self.dl_atom(sort)
            r = rng.random()
            if r < self.o["chain"]:
                op = rng.choice(["<=", "<", ">=", ">", "="])
                return T(op, tuple(self.arith(sort, d - 1) for _ in range(3)), "Bool")
            if r < self.o["chain"] + self.o["distinct"]:
                return T("distinct", tuple(self.arith(sort, d - 1) for _ in range(rng.choice([2, 3, 3, 4]))), "Bool")
            op = rng.choice(["<=", "<", ">=", ">", "=", "<=", ">=", "="])
            return T(op, (self.arith(sort, d - 1), self.arith(sort, d - 1)), "Bool")
        if k == "ueq":
            us = [s for s in self.sig.sorts]
            sort = rng.choice(us)
            if rng.random() < self.o.get("diamond", 0.06):
                return self.eq_chains(sort)
            if rng.random() < self.o["distinct"] * 2:
                return T("distinct", tuple(self.uterm(sort, d - 1) for _ in range(rng.choice([2, 3, 3, 4]))), "Bool")
            return T("=", (self.uterm(sort, d - 1), self.uterm(sort, d - 1)), "Bool")
        if k == "pred":
            cands = self.sig.funs_returning("Bool")
            n, args, _ = rng.choice(cands)
            return T(n, tuple(self.term(s, d - 1) for s in args), "Bool")
        if k == "aeq":
            a = rng.choice(self.array_sorts())
            return T(rng.choice(["=", "=", "distinct"]), (self.array(a, d - 1), self.array(a, d - 1)), "Bool")
        if k == "sel":
            a = rng.choice(self.array_sorts())
            s = T("select", (self.array(a, d - 1), self.term(a[1], d - 1)), a[2])
            other = self.term(a[2], d - 1)
            if a[2] in ("Int", "Real"):
                return T(rng.choice(["=", "<=", "<", ">="]), (s, other), "Bool")
            return T("=", (s, other), "Bool")
        return self.pick_var("Bool")

    def eq_chains(self, sort):
        """Disjunction of 2-step equality chains (the shape the 'learnt transitivity' preprocessing looks for),
        with end points that coincide fully, partly, crossed, or not at all, and sometimes extra disjuncts."""
        rng = self.rng
        pool = list(self.sig.consts.get(sort, []))
        if len(pool) < 2:
            return T("=", (self.uterm(sort, 0), self.uterm(sort, 0)), "Bool")
        terms = [mkvar(n, sort) for n in pool]
        for n, args, _ in self.sig.funs_returning(sort):
            if len(args) == 1 and args[0] == sort:
                terms.append(T(n, (rng.choice(terms[:len(pool)]),), sort))

        def pick(avoid):
            c = [t for t in terms if all(t is not a for a in avoid)]
            return rng.choice(c or terms)

        def chain(x, z):
            w = pick((x, z))
            e1, e2 = T("=", (x, w), "Bool"), T("=", (w, z), "Bool")
            if rng.random() < 0.3:
                e1 = T("=", (w, x), "Bool")
            return T("and", (e1, e2) if rng.random() < 0.8 else (e2, e1))
        x = rng.choice(terms)
        z = pick((x,))
        mode = rng.random()
        if mode < 0.4:
            x2, z2 = x, z                      # proper diamond
        elif mode < 0.55:
            x2, z2 = z, x                      # crossed diamond
        elif mode < 0.8:
            o = pick((x, z))
            x2, z2 = rng.choice([(x, o), (o, z), (z, o), (o, x)])    # only one end point shared
        else:
            x2 = rng.choice(terms)
            z2 = pick((x2,))
        disj = [chain(x, z), chain(x2, z2)]
        if rng.random() < 0.45:
            disj.append(rng.choice([T("=", (rng.choice(terms), rng.choice(terms)), "Bool"), self.pick_var("Bool"),
                                    chain(rng.choice(terms), rng.choice(terms))]))
            if rng.random() < 0.5:
                rng.shuffle(disj)
        return T("or", tuple(disj))

    def boolean(self, d):
        rng = self.rng
        if d <= 0:
            r = rng.random()
            if r < 0.45:
                return self.pick_var("Bool")
            if r < 0.5:
                return rng.choice([TRUE, FALSE])
            return self.atom(1)
        r = rng.random()
        o = self.o
        if r < 0.28:
            return self.atom(d)
        if r < 0.36:
            return self.pick_var("Bool")
        if r < 0.48:
            return T("not", (self.boolean(d - 1),))
        if r < 0.62:
            return T("and", tuple(self.boolean(d - 1) for _ in range(rng.choice([2, 2, 3]))))
        if r < 0.76:
            return T("or", tuple(self.boolean(d - 1) for _ in range(rng.choice([2, 2, 3]))))
        if r < 0.81:
            return T("=>", (self.boolean(d - 1), self.boolean(d - 1)))   # n-ary => / xor are rejected by opensmt
        if r < 0.85:
            return T("xor", (self.boolean(d - 1), self.boolean(d - 1)))
        if r < 0.89:
            return T("=", tuple(self.boolean(d - 1) for _ in range(rng.choice([2, 2, 3]))))
        if r < 0.89 + o["ite"] / 2:
            return T("ite", (self.boolean(d - 1), self.boolean(d - 1), self.boolean(d - 1)))
        if r < 0.95 and rng.random() < o["let"] * 10:
            return self.let(d)
        if self.defs and rng.random() < o["defs"]:
            cands = [f for f in self.defs if f[2] == "Bool"]
            if cands:
                n, params, _ = rng.choice(cands)
                return T(n, tuple(self.term(s, d - 1) for _, s in params), "Bool")
        if o["named"] > 0 and rng.random() < o["named"]:
            inner = self.boolean(d - 1)
            return T("!", (inner,), "Bool", self.fresh_name())
        if rng.random() < o["distinct"]:
            return T("distinct", (self.boolean(d - 1), self.boolean(d - 1)))
        return self.atom(d)

    def let(self, d):
        rng = self.rng
        sorts = ["Bool"] + list(self.L["arith"]) + list(self.sig.sorts)
        if self.L["dl"] and not self.L["uf"]:
            sorts = ["Bool"]
        binds = []
        saved = {}
        for _ in range(rng.choice([1, 1, 2])):
            s = rng.choice(sorts)
            if self.sig.consts.get(s) is None:
                s = "Bool"
            self.let_counter += 1
            if rng.random() < self.o["shadow_let"] and self.sig.consts.get(s):
                n = rng.choice(self.sig.consts[s])       # shadow a declared constant (same sort)
                if any(n == b[0] for b in binds):
                    n = "lv%d" % self.let_counter
            else:
                n = "lv%d" % self.let_counter
            binds.append((n, self.term(s, d - 1), s))
        # make the bound variables available while generating the body
        for n, _, s in binds:
            lst = self.sig.consts.setdefault(s, [])
            saved.setdefault(s, list(lst))
            if n not in lst:
                lst.extend([n, n])   # bias towards using it
        keep_named = self.o["named"]
        self.o["named"] = 0.0          # named terms must be closed
        body = self.boolean(d - 1)
        self.o["named"] = keep_named
        for s, lst in saved.items():
            self.sig.consts[s] = lst
        return T("let", (body,), "Bool", [(n, b) for n, b, _ in binds])


# ---------------------------------------------------------------------------
# scripts


def cmd_text(c, mode="osmt"):
    k = c["k"]
    if k == "set-option":
        return "(set-option %s %s)" % (c["name"], c["val"])
    if k == "set-info":
        return "(set-info %s %s)" % (c["name"], c["val"])
    if k == "set-logic":
        return "(set-logic %s)" % c["logic"]
    if k == "declare-sort":
        return "(declare-sort %s %d)" % (qsym(c["name"]), c["arity"])
    if k == "declare-fun":
        if c.get("const_form") and mode == "osmt" and not c["args"]:
            return "(declare-const %s %s)" % (qsym(c["name"]), sort_str(c["ret"]))
        return "(declare-fun %s (%s) %s)" % (qsym(c["name"]), " ".join(sort_str(s) for s in c["args"]), sort_str(c["ret"]))
    if k == "define-fun":
        ps = " ".join("(%s %s)" % (qsym(n), sort_str(s)) for n, s in c["params"])
        return "(define-fun %s (%s) %s %s)" % (qsym(c["name"]), ps, sort_str(c["ret"]), to_smt(c["body"], mode))
    if k == "assert":
        return "(assert %s)" % to_smt(c["term"], mode)
    if k in ("push", "pop"):
        return "(%s %d)" % (k, c["n"])
    if k in ("check-sat", "get-model", "get-assignment", "get-unsat-core", "get-proof", "exit"):
        return "(%s)" % k
    if k == "get-value":
        return "(get-value (%s))" % " ".join(to_smt(t, mode, strip_names=True) for t in c["terms"])
    if k == "get-interpolants":
        gs = []
        for g in c["groups"]:
            if len(g) == 1 and not c.get("force_and"):
                gs.append(qsym(g[0]))
            else:
                gs.append("(and %s)" % " ".join(qsym(n) for n in g))
        return "(get-interpolants %s)" % " ".join(gs)
    if k == "raw":
        return c["text"]
    raise ValueError(k)


def render(cmds, markers=True):
    """Script text for OpenSMT; with markers, an echo after each command delimits responses."""
    out = []
    for i, c in enumerate(cmds):
        out.append(cmd_text(c))
        if markers:
            out.append('(echo "@@%d")' % i)
    return "\n".join(out) + "\n"


def split_output(stdout, ncmds):
    """Responses per command index (text between markers). Returns (list, tail)."""
    res = [""] * ncmds
    cur = []
    last = -1
    for line in stdout.split("\n"):
        if line.startswith("@@") and line[2:].isdigit():
            i = int(line[2:])
            if i < ncmds:
                res[i] = "\n".join(cur).strip()
            cur = []
            last = i
        else:
            cur.append(line)
    return res, "\n".join(cur).strip(), last


class StackModel:
    """Reference model of the assertion stack / scopes for a command list."""

    def __init__(self, global_decls=False, incremental=True):
        self.levels = [self._new()]
        self.global_decls = global_decls
        self.incremental = incremental

    @staticmethod
    def _new():
        return {"asserts": [], "names": {}, "defs": {}}

    def depth(self):
        return len(self.levels) - 1

    def apply(self, c):
        """Apply a command that the solver is expected to accept."""
        k = c["k"]
        if k == "push":
            if self.incremental:
                for _ in range(c["n"]):
                    self.levels.append(self._new())
        elif k == "pop":
            if self.incremental and c["n"] <= self.depth():
                for _ in range(c["n"]):
                    self.levels.pop()
        elif k == "assert":
            from .terms import names_in
            t = c["term"]
            self.levels[-1]["asserts"].append(t)
            for n, tt in names_in(t):
                tgt = self.levels[0] if self.global_decls else self.levels[-1]
                tgt["names"][n] = tt
        elif k == "define-fun":
            tgt = self.levels[0] if self.global_decls else self.levels[-1]
            tgt["defs"][c["name"]] = c

    def assertions(self):
        return [t for lv in self.levels for t in lv["asserts"]]

    def names(self):
        out = {}
        for lv in self.levels:
            out.update(lv["names"])
        return out

    def defs(self):
        out = {}
        for lv in self.levels:
            out.update(lv["defs"])
        return out


def problem_text(decl_cmds, defs, assertions, logic="ALL", extra=""):
    """Flat reference problem: declarations + visible definitions + assertions."""
    lines = []
    if logic:
        lines.append("(set-logic %s)" % logic)
    for c in decl_cmds:
        lines.append(cmd_text(c, "ref"))
    for c in defs:
        lines.append(cmd_text(c, "ref"))
    for t in assertions:
        lines.append("(assert %s)" % to_smt(t, "ref"))
    if extra:
        lines.append(extra)
    lines.append("(check-sat)")
    return "\n".join(lines) + "\n"


class ScriptGen:
    """Generates a command list (options, logic, declarations, history)."""

    def __init__(self, seed, logic=None, logics=None, opts=None, namer=None):
        self.rng = random.Random(seed)
        rng = self.rng
        self.logic = logic or rng.choice(logics or ALL_LOGICS)
        self.sig = make_sig(rng, self.logic, namer=namer)
        self.tg = TermGen(rng, self.logic, self.sig, opts)
        self.ndefs = 0

    def header(self, options=(), logic_name=None):
        cmds = [{"k": "set-option", "name": n, "val": v} for n, v in options]
        cmds.append({"k": "set-logic", "logic": logic_name or LOGICS[self.logic]["name"]})
        cmds += self.sig.decl_cmds
        return cmds

    def assertion(self, depth=None, named=None, nested_named=False):
        d = depth if depth is not None else self.rng.choice([1, 2, 2, 3])
        t = self.tg.boolean(d)
        if named:
            t = T("!", (t,), "Bool", named)
        return {"k": "assert", "term": t}

    def diamond_script(self):
        """Assertions built around equality chains and disequalities of their end points (QF_UF):
        sat/unsat depends on exactly what the transitivity-learning preprocessing may conclude."""
        rng = self.rng
        sort = self.sig.sorts[0]
        pool = [mkvar(n, sort) for n in self.sig.consts[sort]]
        cmds = []
        for _ in range(rng.randint(2, 4)):
            t = self.tg.eq_chains(sort)
            if rng.random() < 0.3:
                t = T(rng.choice(["and", "or"]), (t, self.tg.boolean(1)))
            cmds.append({"k": "assert", "term": t})
        for _ in range(rng.randint(1, 3)):
            a, b = rng.sample(pool, 2) if len(pool) >= 2 else (pool[0], pool[0])
            cmds.append({"k": "assert", "term": T("not", (T("=", (a, b), "Bool"),))})
        # the end points of a generated chain are kept apart half of the time: then only a further disjunct can hold
        ends = []
        for c in cmds:
            for d in ([c["term"]] + list(c["term"].args)) + [x for a in c["term"].args for x in a.args]:
                if d.op == "and" and len(d.args) == 2 and all(e.op == "=" and len(e.args) == 2 for e in d.args):
                    l, r = [to_smt(x, "ref") for x in d.args[0].args], [to_smt(x, "ref") for x in d.args[1].args]
                    shared = [x for x in l if x in r]
                    if len(shared) == 1:
                        a = [x for x in d.args[0].args if to_smt(x, "ref") != shared[0]]
                        b = [x for x in d.args[1].args if to_smt(x, "ref") != shared[0]]
                        if a and b:
                            ends.append((a[0], b[0]))
        if ends and rng.random() < 0.5:
            a, b = rng.choice(ends)
            cmds.append({"k": "assert", "term": T("not", (T("=", (a, b), "Bool"),))})
        rng.shuffle(cmds)
        return cmds

    def define_fun(self):
        rng = self.rng
        self.ndefs += 1
        name = "df%d" % self.ndefs
        sorts = ["Bool"] + list(LOGICS[self.logic]["arith"]) + list(self.sig.sorts)
        if LOGICS[self.logic]["dl"] and not LOGICS[self.logic]["uf"]:
            sorts = ["Bool"]
        params = []
        for i in range(rng.choice([0, 1, 1, 2])):
            s = rng.choice(sorts)
            if self.sig.consts.get(s) is None:
                s = "Bool"
            params.append(("%s_p%d" % (name, i), s))
        saved = {}
        for n, s in params:
            lst = self.sig.consts.setdefault(s, [])
            saved.setdefault(s, list(lst))
            lst.extend([n, n])
        keep_named = self.tg.o["named"]
        self.tg.o["named"] = 0.0
        body = self.tg.boolean(rng.choice([1, 2]))
        self.tg.o["named"] = keep_named
        for s, lst in saved.items():
            self.sig.consts[s] = lst
        c = {"k": "define-fun", "name": name, "params": params, "ret": "Bool", "body": body}
        return c

    def variant(self, t):
        """A formula that shares its internal (simplified) form or its atoms with t but is a different term."""
        rng = self.rng
        if t.op in ("and", "or") and len(t.args) >= 2:
            k = rng.randrange(4)
            flat = []
            for a in t.args:
                flat += list(a.args) if a.op == t.op else [a]
            if k == 0 and len(flat) >= 3:
                return T(t.op, (T(t.op, tuple(flat[:2]), "Bool"),) + tuple(flat[2:]), "Bool")      # re-associated to the left
            if k == 1 and len(flat) >= 3:
                return T(t.op, tuple(flat[:-2]) + (T(t.op, tuple(flat[-2:]), "Bool"),), "Bool")    # re-associated to the right
            if k == 2:
                return T(t.op, tuple(reversed(t.args)), "Bool")                                     # commuted
            return T(t.op, tuple(flat), "Bool") if len(flat) != len(t.args) else T(t.op, tuple(t.args) + (t.args[0],), "Bool")
        k = rng.randrange(5)
        if k == 0:
            return T("not", (T("not", (t,), "Bool"),), "Bool")
        if k == 1:
            return T("and", (t, TRUE), "Bool")
        if k == 2:
            return T("or", (t, FALSE), "Bool")
        other = self.tg.term("Bool", 1)
        if other is None:
            return T("and", (t, t), "Bool")
        return T("and", (other, t), "Bool") if k == 3 else T("or", (t, other), "Bool")                 # t becomes a sub-term

    def history(self, ncmds, p=None, queries=(), query_fn=None, name_p=0.0):
        """Random push/pop/assert/check history.
        queries: kinds of get-* added after every check-sat;
        query_fn(rng, names_in_scope) -> extra commands after a check-sat;
        name_p: probability that an assertion is named at top level."""
        from .terms import strip_named, names_in
        rng = self.rng
        pr = dict(assert_=0.45, push=0.15, pop=0.12, check=0.22, define=0.06, reassert=0.1, maxdepth=4)
        if p:
            pr.update(p)
        cmds = []
        depth = 0
        popped = []       # formulas from popped levels (for re-assertion)
        level_asserts = [[]]
        level_defs = [[]]
        level_names = [[]]
        since_check = 0

        def after_check():
            for q in queries:
                cmds.append({"k": q})
            if query_fn:
                names = [n for lv in level_names for n in lv]
                cmds.extend(query_fn(rng, names))

        for _ in range(ncmds):
            r = rng.random()
            if r < pr["assert_"]:
                if popped and rng.random() < pr["reassert"]:
                    t = rng.choice(popped)
                    if rng.random() < pr.get("variant", 0.5):
                        t = self.variant(t)      # same meaning (or same atoms), different text: the popped one must leave no trace
                    if rng.random() < name_p:
                        t = T("!", (t,), "Bool", self.tg.fresh_name())
                    c = {"k": "assert", "term": t}
                else:
                    c = self.assertion(named=self.tg.fresh_name() if rng.random() < name_p else None)
                cmds.append(c)
                level_asserts[-1].append(c["term"])
                level_names[-1] += [n for n, _ in names_in(c["term"])]
                since_check += 1
            elif r < pr["assert_"] + pr["push"]:
                if depth < pr["maxdepth"]:
                    n = 1 if rng.random() < 0.85 else 2
                    cmds.append({"k": "push", "n": n})
                    for _ in range(n):
                        level_asserts.append([])
                        level_defs.append([])
                        level_names.append([])
                    depth += n
            elif r < pr["assert_"] + pr["push"] + pr["pop"]:
                if depth > 0:
                    n = 1 if rng.random() < 0.8 else rng.randint(1, depth)
                    cmds.append({"k": "pop", "n": n})
                    for _ in range(n):
                        popped += [strip_named(t) for t in level_asserts.pop()]
                        gone = level_defs.pop()
                        self.tg.name_pool += level_names.pop()
                        self.tg.defs = [f for f in self.tg.defs if f[0] not in gone]
                    depth -= n
            elif r < pr["assert_"] + pr["push"] + pr["pop"] + pr["define"]:
                c = self.define_fun()
                cmds.append(c)
                self.tg.defs.append((c["name"], c["params"], c["ret"]))
                level_defs[-1].append(c["name"])
            else:
                cmds.append({"k": "check-sat"})
                since_check = 0
                after_check()
        if since_check or not any(c["k"] == "check-sat" for c in cmds):
            cmds.append({"k": "check-sat"})
            after_check()
        return cmds


def dedup_asserts(cmds, rng, keep_p=0.08):
    """Drop assertions whose (name-stripped) text repeats an assertion that is still on the assertion stack, except with
    probability keep_p.  opensmt identifies assertions by their term, so a formula asserted twice on the stack hits known
    limitations of cores/interpolants; most of the workload avoids them so that other defects stay visible.  A formula that
    repeats a *popped* assertion is kept: the popped one must leave no trace."""
    from .terms import strip_named
    levels = [set()]
    out = []
    for c in cmds:
        if c["k"] == "push":
            for _ in range(c["n"]):
                levels.append(set())
        elif c["k"] == "pop":
            for _ in range(min(c["n"], len(levels) - 1)):
                levels.pop()
        elif c["k"] == "assert":
            t = to_smt(strip_named(c["term"]), "ref")
            if any(t in lv for lv in levels) and rng.random() >= keep_p:
                continue
            levels[-1].add(t)
        out.append(c)
    return out
