"""Running generated command lists and walking the responses with the stack model."""
from fractions import Fraction

from . import gen, osmt, refs, configs
from .terms import subterms, T, cmd_to_json, cmd_from_json


def option_state(cmds):
    opts = [(c["name"], c["val"]) for c in cmds if c["k"] == "set-option"]
    return {
        "incremental": not configs.has(opts, ":incremental", "false"),
        "global": configs.has(opts, ":global-declarations", "true"),
        "options": opts,
    }


def execute(cmds, flavour="rel", cpu_s=20, args=(), env=None, pipe=False):
    text = gen.render(cmds)
    run = osmt.run_opensmt(text, flavour=flavour, cpu_s=cpu_s, args=args, env=env, pipe=pipe)
    resp, tail, last = gen.split_output(run.out, len(cmds))
    return run, resp, last


def is_error(r):
    return "(error" in r


def walk(cmds, resp, last=None):
    """Yield (index, cmd, response, model) with `model` = StackModel *after* applying accepted
    commands up to and including index.  Commands answered with an error are not applied
    (that rejected commands change nothing is C19's business)."""
    st = option_state(cmds)
    m = gen.StackModel(global_decls=st["global"], incremental=st["incremental"])
    for i, c in enumerate(cmds):
        if last is not None and i > last:
            return
        r = resp[i]
        if c["k"] in ("push", "pop", "assert", "define-fun") and not is_error(r):
            m.apply(c)
        yield i, c, r, m


def decls_of(cmds):
    return [c for c in cmds if c["k"] in ("declare-sort", "declare-fun")]


def ref_problem(cmds, model, extra_asserts=(), without=None):
    """Reference text for the current stack."""
    assertions = list(model.assertions())
    if without is not None:
        assertions = [a for a in assertions if a is not without]
    return gen.problem_text(decls_of(cmds), list(model.defs().values()), assertions + list(extra_asserts))


def answer_of(r):
    for line in r.split("\n"):
        line = line.strip()
        if line in ("sat", "unsat", "unknown"):
            return line
    return None


def script_features(cmds):
    """Feature flags used in violation sites / evidence."""
    big = False
    divmod_ = False
    arrays = False
    for c in cmds:
        ts = []
        if c["k"] == "assert":
            ts = [c["term"]]
        elif c["k"] == "define-fun":
            ts = [c["body"]]
        for t in ts:
            for s in subterms(t):
                if s.op == "num" and (abs(s.val.numerator) >= 2**31 or s.val.denominator >= 2**31):
                    big = True
                elif s.op in ("div", "mod"):
                    divmod_ = True
                elif s.op in ("select", "store"):
                    arrays = True
    f = []
    if big:
        f.append("big")
    if divmod_:
        f.append("divmod")
    if arrays:
        f.append("arr")
    return f


def logic_of(cmds):
    for c in cmds:
        if c["k"] == "set-logic":
            return c["logic"]
    return "?"


def site_of(cmds, extra=()):
    st = option_state(cmds)
    eng = configs.engine_of(st["options"])
    parts = [logic_of(cmds), eng]
    if not st["incremental"]:
        parts.append("nonincr")
    parts += script_features(cmds)
    parts += list(extra)
    return ":".join(parts)


def witness(cmds, **kw):
    w = {"script": gen.render(cmds, markers=False), "cmds": [cmd_to_json(c) for c in cmds]}
    w.update(kw)
    return w


def cmds_from_witness(w):
    return [cmd_from_json(c) for c in w["cmds"]]


def shrink(cmds, pred, budget=120):
    """Greedy minimisation: drop non-declaration commands, then replace asserted terms by Boolean
    sub-terms, while pred(cmds) stays true."""
    keep_kinds = ("set-logic", "declare-sort", "declare-fun", "set-option")
    cur = list(cmds)
    calls = 0
    changed = True
    while changed and calls < budget:
        changed = False
        i = len(cur) - 1
        while i >= 0 and calls < budget:
            c = cur[i]
            if c["k"] not in keep_kinds:
                cand = cur[:i] + cur[i + 1:]
                calls += 1
                try:
                    ok = pred(cand)
                except Exception:
                    ok = False
                if ok:
                    cur = cand
                    changed = True
            i -= 1
    # term shrinking
    for i, c in enumerate(list(cur)):
        if c["k"] != "assert" or calls >= budget:
            continue
        improved = True
        while improved and calls < budget:
            improved = False
            t = cur[i]["term"]
            subs = [a for a in t.args if a.sort == "Bool"] if t.op not in ("!", "let") else []
            for s in subs:
                cand = list(cur)
                cand[i] = {"k": "assert", "term": s}
                calls += 1
                try:
                    ok = pred(cand)
                except Exception:
                    ok = False
                if ok:
                    cur = cand
                    improved = True
                    break
    # drop unused options
    i = 0
    while i < len(cur) and calls < budget:
        if cur[i]["k"] == "set-option":
            cand = cur[:i] + cur[i + 1:]
            calls += 1
            try:
                ok = pred(cand)
            except Exception:
                ok = False
            if ok:
                cur = cand
                continue
        i += 1
    return cur
