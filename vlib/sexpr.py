"""Minimal, strict-ish SMT-LIB 2.6 s-expression reader/printer.

Atoms are returned as `str` (exact token text, quoted symbols keep their bars,
string literals keep their quotes); lists as python lists.
"""


class SexprError(Exception):
    pass


_WS = " \t\r\n"
_DELIM = _WS + '()";|'


def tokenize(text):
    i, n = 0, len(text)
    while i < n:
        c = text[i]
        if c in _WS:
            i += 1
        elif c == ';':
            while i < n and text[i] != '\n':
                i += 1
        elif c == '(' or c == ')':
            yield c
            i += 1
        elif c == '|':
            j = text.find('|', i + 1)
            if j < 0:
                raise SexprError("unterminated quoted symbol at %d" % i)
            yield text[i:j + 1]
            i = j + 1
        elif c == '"':
            j = i + 1
            while True:
                j = text.find('"', j)
                if j < 0:
                    raise SexprError("unterminated string at %d" % i)
                if j + 1 < n and text[j + 1] == '"':
                    j += 2
                    continue
                break
            yield text[i:j + 1]
            i = j + 1
        else:
            j = i
            while j < n and text[j] not in _DELIM:
                j += 1
            if j == i:
                raise SexprError("bad char %r at %d" % (c, i))
            yield text[i:j]
            i = j


def parse_all(text):
    """Parse a sequence of s-expressions. Raises SexprError on imbalance."""
    stack = [[]]
    for t in tokenize(text):
        if t == '(':
            stack.append([])
        elif t == ')':
            if len(stack) == 1:
                raise SexprError("unbalanced )")
            x = stack.pop()
            stack[-1].append(x)
        else:
            stack[-1].append(t)
    if len(stack) != 1:
        raise SexprError("unbalanced (")
    return stack[0]


def parse_one(text):
    r = parse_all(text)
    if len(r) != 1:
        raise SexprError("expected exactly one s-expression, got %d" % len(r))
    return r[0]


def dump(x):
    if isinstance(x, str):
        return x
    return "(" + " ".join(dump(y) for y in x) + ")"


def atoms(x):
    if isinstance(x, str):
        yield x
    else:
        for y in x:
            yield from atoms(y)


_SIMPLE_START = "abcdefghijklmnopqrstuvwxyzABCDEFGHIJKLMNOPQRSTUVWXYZ~!@$%^&*_-+=<>.?/"
_SIMPLE = _SIMPLE_START + "0123456789"


def is_simple_symbol(s):
    return len(s) > 0 and s[0] in _SIMPLE_START and all(c in _SIMPLE for c in s)


def is_numeral(s):
    return s.isdigit() and (s == "0" or s[0] != "0")


def is_decimal(s):
    if s.count('.') != 1:
        return False
    a, b = s.split('.')
    return is_numeral(a) and b.isdigit() and len(b) > 0


def unquote(s):
    if len(s) >= 2 and s[0] == '|' and s[-1] == '|':
        return s[1:-1]
    return s
