"""Process-level monitors: C18 (no crash, every problem signalled), C20 (pipe == file), C23 (reproducible)."""
import glob
import os
import random
import re
import subprocess
import time

from .. import gen, configs, scriptrun as sr, osmt, build
from ..core import Campaign, CaseResult, Violation, h
from . import answers, models, cores, itp

N_QUICK = {"C18": 760, "C20": 420, "C23": 300}
N_THOROUGH = {"C18": 120000, "C20": 24000, "C23": 16000}

CORPUS = os.path.join(build.REPO, "test", "regression")


# --------------------------------------------------------------------------- crash sites

def crash_site(run):
    err = run.err or ""
    m = re.search(r"ERROR: AddressSanitizer: ([a-zA-Z-]+)", err)
    if m:
        frames = re.findall(r"#\d+ 0x[0-9a-f]+ in ([^\s(]+)", err)
        frames = [f for f in frames if not f.startswith("__") and "sanitizer" not in f][:3]
        return "asan-%s@%s" % (m.group(1), ">".join(frames))
    m = re.search(r"([A-Za-z_./]+):\d+:\d+: runtime error: ([^\n]*)", err)
    if m:
        msg = re.sub(r"-?\d+", "N", m.group(2))[:60]
        frames = [f for f in re.findall(r"#\d+ 0x[0-9a-f]+ in ([^\s(<]+)", err) if f.startswith("opensmt::")]
        frames = [f for f in frames if "::vec" not in f][:2]
        return "ubsan@%s:%s@%s" % (os.path.basename(m.group(1)), msg, ">".join(frames))
    m = re.search(r"terminate called after throwing an instance of '([^']+)'", err)
    if m:
        w = re.search(r"what\(\):\s*([^\n]*)", err)
        return "uncaught-%s:%s" % (m.group(1), re.sub(r"[^A-Za-z ]+", "", w.group(1))[:40] if w else "")
    if "Assertion" in err:
        m = re.search(r"Assertion `([^']*)'", err)
        return "assert:" + (m.group(1)[:50] if m else "")
    if run.signal:
        return "signal-%d" % run.signal
    return "unknown"


def has_diag(out):
    return ("(error" in out) or ("yntax error" in out) or ("At line" in out) or ("unbalanced" in out)


# --------------------------------------------------------------------------- C18

INJECT = ["drop-paren", "extra-paren", "illegal-char", "unknown-command", "undeclared-symbol", "ill-sorted",
          "nonlinear", "div-zero", "second-set-logic", "before-set-logic", "get-model-no-option", "get-value-not-sat",
          "pop-too-far", "huge-push", "non-bool-assert", "unknown-logic", "bad-option-value",
          "unterminated-string", "unterminated-quoted",
          "percent-in-message", "itp-arity", "late-core-option", "global-toggle", "defined-fun-arity"]
# (a repeated identical declaration is accepted by opensmt as a no-op; it is not a *rejected* command, so it is not
#  an input problem in the sense of C18 and is not injected)


def valid_base(seed):
    rng = random.Random(seed * 59 + 7)
    logic = gen.ALL_LOGICS[seed % len(gen.ALL_LOGICS)]
    g = gen.ScriptGen(seed, logic=logic, opts={"boundary": 0.05})
    options = configs.random_config(rng, allow_nonincremental=True) if rng.random() < 0.4 else []
    cmds = g.header(options)
    if rng.random() < 0.5 and not configs.has(options, ":incremental", "false"):
        cmds += g.history(rng.randint(4, 10), p={"pop": 0.1})
    else:
        cmds += [g.assertion() for _ in range(rng.randint(1, 4))] + [{"k": "check-sat"}]
    return g, cmds


def inject(kind, lines, g, rng):
    """Insert exactly one problem into a valid script (list of command lines). Returns new text or None."""
    L = list(lines)
    logic_idx = next(i for i, l in enumerate(L) if l.startswith("(set-logic"))
    body = [i for i in range(logic_idx + 1, len(L))]
    asserts = [i for i in body if L[i].startswith("(assert")]
    pos = rng.choice(body) + 1 if body else len(L)
    ar = gen.LOGICS[g.logic]["arith"]
    if kind == "drop-paren":
        i = rng.choice(body)
        L[i] = L[i][:-1]
    elif kind == "extra-paren":
        i = rng.choice(body)
        L[i] = L[i] + ")"
    elif kind == "illegal-char":
        if not asserts:
            return None
        i = rng.choice(asserts)
        L[i] = L[i].replace("(assert ", "(assert %s" % rng.choice(["#", "\x01", "\\", "{", "\x7f"]), 1)
    elif kind == "unknown-command":
        L.insert(pos, rng.choice(["(frobnicate)", "(check-sat-assuming (b0))", "(get-assertions)", "(reset)", "(declare-datatypes () ())"]))
    elif kind == "undeclared-symbol":
        L.insert(pos, "(assert (= nosuchsym nosuchsym2))")
    elif kind == "ill-sorted":
        L.insert(pos, rng.choice(["(assert (and b0 1))", "(assert (not 3))", "(assert (= b0 1))", "(assert (ite 1 b0 b0))"]))
    elif kind == "nonlinear":
        if not ar:
            return None
        s = ar[0]
        v = g.sig.consts[s]
        L.insert(pos, "(assert (= (* %s %s) %s))" % (v[0], v[-1], v[0]))
    elif kind == "div-zero":
        if not ar:
            return None
        s = ar[0]
        v = g.sig.consts[s][0]
        L.insert(pos, "(assert (= %s (%s %s %s)))" % (v, "/" if s == "Real" else rng.choice(["div", "mod"]), v, "0.0" if s == "Real" else "0"))
    elif kind == "second-set-logic":
        L.insert(pos, "(set-logic QF_UF)")
    elif kind == "before-set-logic":
        L.insert(logic_idx, rng.choice(["(assert true)", "(check-sat)", "(declare-fun zz () Bool)", "(push 1)", "(get-model)"]))
    elif kind == "percent-in-message":
        # the name ends up in a diagnostic: it must not be interpreted as a format
        L.insert(logic_idx + 1, rng.choice(["(declare-sort %s 0)\n(declare-fun pct () %s)\n(assert pct)",
                                            "(declare-fun |%n%s%s| () Bool)\n(assert (and |%n%s%s| 1))",
                                            "(assert (= %s%s%d 1))"]))
    elif kind == "itp-arity":
        if not any(":produce-interpolants" in l for l in L):
            L.insert(0, "(set-option :produce-interpolants true)")
        L.append(rng.choice(["(get-interpolants)", "(get-interpolants zz_a)", "(get-interpolants (and))"]))
    elif kind == "late-core-option":
        if any(":produce-unsat-cores" in l for l in L):
            return None
        L.insert(logic_idx + 1, "(set-option :produce-unsat-cores true)")
        L.append("(get-unsat-core)")
    elif kind == "global-toggle":
        if any(":global-declarations" in l for l in L) or any(":incremental" in l for l in L):
            return None
        L.insert(logic_idx, "(set-option :global-declarations %s)" % rng.choice(["true", "false"]))
        L.insert(pos + 1, "(push 1)\n(set-option :global-declarations %s)\n(declare-fun gt_x () Bool)\n(assert (! gt_x :named gt_n))\n(pop 1)" % rng.choice(["true", "false"]))
        L[logic_idx] = L[logic_idx]
    elif kind == "defined-fun-arity":
        L.insert(pos, rng.choice(["(define-fun dfa0 () Bool true)\n(assert (dfa0 true))",
                                  "(define-fun dfa1 ((v Bool)) Bool (not v))\n(assert (dfa1 true false))",
                                  "(define-fun dfa2 ((v Bool) (w Bool)) Bool (and v w))\n(assert (dfa2 true))"]))
    elif kind == "get-model-no-option":
        if any(":produce-models" in l for l in L):
            return None            # with the option set get-model is a legal request, not an input problem
        L.append("(get-model)")
    elif kind == "get-value-not-sat":
        L.insert(logic_idx + 1, "(get-value (true))")
    elif kind == "pop-too-far":
        L.insert(pos, "(pop 7)")
    elif kind == "huge-push":
        L.insert(pos, rng.choice(["(push 99999999999999999999)", "(pop 99999999999999999999)", "(push 4294967297)"]))
    elif kind == "non-bool-assert":
        L.insert(pos, "(assert 5)" if not ar else "(assert %s)" % g.sig.consts[ar[0]][0])
    elif kind == "unknown-logic":
        L[logic_idx] = "(set-logic QF_FOOBAR)"
    elif kind == "bad-option-value":
        L.insert(logic_idx, rng.choice(["(set-option :random-seed 0)", "(set-option :produce-stats 7)"]))
    elif kind == "dup-declaration":
        L.insert(pos, "(declare-fun b0 () Bool)")
    elif kind == "unterminated-string":
        L.append('(echo "abc')
    elif kind == "unterminated-quoted":
        L.append("(declare-fun |abc () Bool)")
    return "\n".join(L) + "\n"


def mutate_bytes(data, rng):
    b = bytearray(data)
    n = rng.choice([1, 1, 2, 3, 5])
    for _ in range(n):
        op = rng.random()
        if not b:
            break
        i = rng.randrange(len(b))
        if op < 0.25:
            del b[i:i + rng.choice([1, 1, 2, 8])]
        elif op < 0.5:
            b[i:i] = bytes([rng.choice(b"()|\";#\\ \n\t0123456789-.:!abcxyz_")]) * rng.choice([1, 1, 2])
        elif op < 0.7:
            b[i] = rng.randrange(256)
        elif op < 0.8:
            j = rng.randrange(len(b))
            b[i:i] = b[j:j + rng.choice([4, 16, 64])]
        elif op < 0.9:
            del b[i:]
        else:
            toks = bytes(b).split(b" ")
            if len(toks) > 3:
                a, c = rng.randrange(len(toks)), rng.randrange(len(toks))
                toks[a], toks[c] = toks[c], toks[a]
                b = bytearray(b" ".join(toks))
    return bytes(b)


GRAMMAR_CMDS = [
    "(get-info :name)", "(get-info :version)", "(get-info :status)", "(get-option :produce-models)", "(get-option :nosuch)",
    '(echo "hello ""quoted"" (x) ; y")', "(simplify)", "(set-info :status sat)", "(set-info :source |multi\nline|)",
    "(define-sort MyS () Int)", "(declare-sort S 0)", "(declare-sort S2 1)", "(declare-sort S3 4294967296)",
    "(declare-fun s () S)", "(assert (= #x0f #x0f))", "(assert (= #b01 #b01))", '(assert (= "a" "a"))',
    "(get-assignment)", "(get-unsat-core)", "(get-proof)", "(get-interpolants a b)", "(get-value (x))", "(get-model)",
    "(check-sat)", "(push 1)", "(pop 1)", "(push 0)", "(pop 0)", "(exit)", "(set-option :verbosity 2)",
    "(set-option :print-success true)", "(set-option :dump-query-name \"/nonexistent/dir/q\")", "(set-option :dump-query true)",
    "(declare-const x Int)", "(declare-fun x () Int)", "(declare-fun f (Int Int) Int)", "(define-fun g ((a Int)) Int (+ a 1))",
    "(define-fun g ((a Int)) Bool (+ a 1))", "(assert (> (f x 1) (g 2)))", "(assert (let ((x 1) (x 2)) (> x 0)))",
    "(assert (let ((y (+ x 1))) (let ((y (+ y 1))) (> y 0))))", "(assert (! (> x 0) :named n))", "(assert (! (> x 1) :named n))",
    "(assert (! (> x 1) :pattern (x)))", "(assert (forall ((z Int)) (> z 0)))", "(assert (exists ((z Int)) (> z 0)))",
    "(assert (distinct x))", "(assert (distinct))", "(assert (and))", "(assert (or))", "(assert (+ x))", "(assert (- x x x x))",
    "(assert (> x (- 9223372036854775808)))", "(assert (> x 123456789012345678901234567890))", "(assert (= x (div x 3)))",
    "(assert (= x (mod x (- 3))))", "(assert (= 0.5 0.5))", "(assert (= x (as x Int)))", "(assert ((_ divisible 3) x))",
    "(assert (select a 1))", "(declare-fun a () (Array Int Int))", "(assert (= (select a 1) (select (store a 1 2) 1)))",
    "(assert true)", "(assert false)", "(assert (=> true false false))", "(assert (xor true))", "(assert (ite true true))",
    "(set-option :incremental false)", "(set-option :produce-models true)", "(set-option :produce-unsat-cores true)",
    "(set-option :produce-interpolants true)", "(set-option :produce-proofs true)", "(get-info :all-statistics)",
]


def grammar_script(rng):
    logic = rng.choice(["QF_LIA", "QF_UFLIA", "QF_AUFLIA", "ALL", "QF_UF", "QF_LRA", "QF_BV", "QF_IDL", "QF_AX"])
    opts = [c for c in GRAMMAR_CMDS if c.startswith("(set-option") and rng.random() < 0.25]
    body = [rng.choice(GRAMMAR_CMDS) for _ in range(rng.randint(3, 25))]
    pre = [rng.choice(GRAMMAR_CMDS)] if rng.random() < 0.15 else []
    return "\n".join(opts + pre + ["(set-logic %s)" % logic] + body) + "\n"


def corpus_files():
    fs = sorted(glob.glob(os.path.join(CORPUS, "**", "*.smt2"), recursive=True))
    return [f for f in fs if os.path.getsize(f) < 6000]


def c18_run(text, pipe, cpu_s=20):
    return osmt.run_opensmt(text, flavour="asan", pipe=pipe, cpu_s=cpu_s)


def c18_case(param):
    seed, kind = param
    res = CaseResult()
    rng = random.Random(seed * 61 + 3)
    viol = []

    def crash_check(run, text, mode, tag):
        res.evals += 1
        if run.crashed():
            viol.append(("crash", crash_site(run), "%s input, %s mode: %s\nstderr: %s" % (tag, mode, crash_site(run), run.err[-1500:]), text, mode))
            return True
        if run.timeout:
            res.inc("timeouts")
            return True
        if run.rc not in (0, 1):
            viol.append(("bad-exit-status", "rc=%s" % run.rc, "%s input, %s mode: exit status %s" % (tag, mode, run.rc), text, mode))
            return True
        if has_diag(run.out) and run.rc == 0:
            d = "syntax" if ("yntax error" in run.out or "At line" in run.out) else models.errkind(run.out)
            viol.append(("diagnostic-but-exit-0", "%s:%s" % (mode, d), "%s input, %s mode: a diagnostic was printed but the exit status is 0\n%s" % (
                tag, mode, run.out[-400:]), text, mode))
        return False

    if kind == "inject":
        g, cmds = valid_base(seed)
        text0 = gen.render(cmds, markers=False)
        r0 = c18_run(text0, False)
        if r0.crashed():
            crash_check(r0, text0, "file", "valid")
        elif r0.rc != 0 or has_diag(r0.out) or r0.timeout:
            res.inc("base_not_clean")
        else:
            lines = text0.strip().split("\n")
            ik = INJECT[(seed // 7) % len(INJECT)]
            text = inject(ik, lines, g, rng)
            if text is None:
                res.inc("inject_not_applicable")
            else:
                res.inc("inject_" + ik)
                for mode in ("file", "pipe"):
                    run = c18_run(text, mode == "pipe")
                    if crash_check(run, text, mode, "injected:" + ik):
                        continue
                    if not has_diag(run.out) or run.rc == 0:
                        what = "no-diagnostic" if not has_diag(run.out) else "exit-0"
                        viol.append(("problem-not-signalled", "%s:%s:%s" % (ik, mode, what),
                                     "injected problem '%s' in %s mode: diagnostic=%s exit=%s\nstdout tail: %s" % (
                                         ik, mode, has_diag(run.out), run.rc, run.out[-300:]), text, mode))
                    else:
                        res.dkeys.append(h(text + mode))
    elif kind == "mutate":
        files = corpus_files()
        f = files[seed % len(files)]
        data = open(f, "rb").read()
        if rng.random() < 0.15:
            other = open(files[rng.randrange(len(files))], "rb").read()
            data = data[:rng.randrange(len(data) + 1)] + other[rng.randrange(len(other) + 1):]
        data = mutate_bytes(data, rng)
        mode = "pipe" if rng.random() < 0.3 else "file"
        has_check = b"check-sat" in data
        run = c18_run(data, mode == "pipe", cpu_s=20)
        txt = data.decode("latin-1")
        res.inc("mutants_of_corpus")
        if not crash_check(run, txt, mode, "mutant of %s" % os.path.basename(f)):
            res.dkeys.append(h(txt + mode))
        elif run.timeout and not has_check:
            run2 = c18_run(data, mode == "pipe", cpu_s=40)
            if run2.timeout:
                viol.append(("hang-without-check-sat", mode, "input without check-sat does not finish within 20 s and 40 s CPU", txt, mode))
    else:
        text = grammar_script(rng)
        res.inc("grammar_scripts")
        for mode in ("file", "pipe"):
            run = c18_run(text, mode == "pipe")
            if not crash_check(run, text, mode, "grammar"):
                res.dkeys.append(h(text + mode))
    seen = set()
    for cls, site, detail, text, mode in viol:
        if (cls, site) in seen:
            continue
        seen.add((cls, site))
        small = c18_shrink(text, mode, cls, site)
        res.viol.append(Violation(cls, site, detail + "\n--- input (%s mode) ---\n%s" % (mode, small[:3000]),
                                  {"text": small, "mode": mode, "prop": "C18"}))
    if seed % 211 == 0:
        res.sample = {"kind": kind, "seed": seed}
    return res


def c18_classify(text, mode):
    """(cls, site) list for one input (used by shrink and replay)."""
    run = c18_run(text, mode == "pipe")
    out = []
    if run.crashed():
        out.append(("crash", crash_site(run)))
    elif run.timeout:
        pass
    elif run.rc not in (0, 1):
        out.append(("bad-exit-status", "rc=%s" % run.rc))
    elif has_diag(run.out) and run.rc == 0:
        d = "syntax" if ("yntax error" in run.out or "At line" in run.out) else models.errkind(run.out)
        out.append(("diagnostic-but-exit-0", "%s:%s" % (mode, d)))
    return out, run


def c18_shrink(text, mode, cls, site):
    if cls not in ("crash", "bad-exit-status"):
        return text
    lines = text.split("\n")
    calls = 0
    i = len(lines) - 1
    while i >= 0 and calls < 60:
        cand = lines[:i] + lines[i + 1:]
        calls += 1
        got, _ = c18_classify("\n".join(cand), mode)
        if (cls, site) in got:
            lines = cand
        i -= 1
    return "\n".join(lines)


def c18_replay(w):
    text, mode = w["text"], w["mode"]
    got, run = c18_classify(text, mode)
    out = [Violation(c, s, "replayed", w) for c, s in got]
    if w.get("expect_diag"):
        if not run.crashed() and (not has_diag(run.out) or run.rc == 0):
            what = "no-diagnostic" if not has_diag(run.out) else "exit-0"
            out.append(Violation("problem-not-signalled", "%s:%s:%s" % (w["expect_diag"], mode, what), "replayed", w))
    return out


# --------------------------------------------------------------------------- C20

def noisy_layout(cmds, rng):
    """Render a valid script with hostile layout: comments/strings/quoted symbols containing ( ) ; | " ."""
    parts = []
    noise_comments = ["; (unbalanced ( comment", "; ) ) )", '; a "string" in a | comment', ";; | bar", ";(assert false)"]
    echoes = ['(echo "paren ( in string")', '(echo "close ) ; semi | bar")', '(echo "escaped \\" quote ) (")', '(echo "backslash \\\\")', '(echo "")',
              "(set-info :source |quoted ( symbol ; with ) stuff \" and more|)", '(set-info :note "x ; y ( z")',
              "(declare-fun |weird ; name ( with ) paren| () Bool)", "(assert (or |weird ; name ( with ) paren| true))"]
    declared_weird = False
    for c in cmds:
        t = gen.cmd_text(c)
        r = rng.random()
        if r < 0.15:
            t = t.replace(" ", "\n", rng.randint(1, 3))
        elif r < 0.25:
            t = t.replace(" ", "  ; inline ( comment\n ", 1)
        elif r < 0.3:
            t = t.replace(" ", "\t", 2)
        parts.append(t)
        if c["k"] in ("set-logic",) or rng.random() < 0.12:
            if rng.random() < 0.6:
                parts.append(rng.choice(noise_comments) + "\n")
            e = rng.choice(echoes)
            if "assert (or |weird" in e and not declared_weird:
                e = echoes[6]
            if e == echoes[6]:
                if declared_weird:
                    e = echoes[0]
                declared_weird = True
            if c["k"] != "set-option":
                parts.append(e)
    sep = [rng.choice(["\n", "\n", " ", "\n\n", "", "\t\n"]) for _ in parts]
    text = "".join(p + s for p, s in zip(parts, sep))
    if rng.random() < 0.5:
        text = text.rstrip("\n")
    return text


def c20_build(seed):
    rng = random.Random(seed * 67 + 5)
    kind = seed % 4
    if kind == 0:
        cmds = models.build(seed)
    elif kind == 1:
        cmds = cores.build(seed, "C06")
    elif kind == 2:
        cmds = answers.build_case(seed, "C01")
    else:
        cmds = itp.build(seed, "C08")
    cmds = [c for c in cmds if not (c["k"] == "set-option" and c["name"] in (":ghost-vars",))]
    if rng.random() < 0.2:
        k = rng.randrange(len(cmds))
        cmds = cmds[:k] + [{"k": "exit"}] + cmds[k:]
    return noisy_layout(cmds, rng), rng


def run_pipe_chunked(text, chunks, rng, cpu_s=10):
    exe = build.opensmt_path("rel")
    data = text.encode()
    p = subprocess.Popen(["prlimit", "--cpu=%d" % cpu_s, "--core=0", exe, "-p"], stdin=subprocess.PIPE, stdout=subprocess.PIPE,
                         stderr=subprocess.PIPE)
    try:
        i = 0
        fd = p.stdin.fileno()
        for n in chunks:
            if i >= len(data):
                break
            try:
                os.write(fd, data[i:i + n])
            except BrokenPipeError:
                break
            i += n
            if rng.random() < 0.02:
                time.sleep(rng.choice([0, 0.0002, 0.001]))
        if i < len(data):
            try:
                os.write(fd, data[i:])
            except BrokenPipeError:
                pass
        p.stdin.close()
        out = p.stdout.read()
        err = p.stderr.read()
        rc = p.wait(timeout=cpu_s * 3 + 10)
    except subprocess.TimeoutExpired:
        p.kill()
        return None, b"", b""
    finally:
        try:
            p.stdout.close()
            p.stderr.close()
        except Exception:
            pass
    return rc, out, err


def chunkings(n, rng):
    ks = []
    ks.append([1] * n)                                            # byte by byte
    ks.append([rng.choice([1, 2, 3, 5, 7, 11]) for _ in range(n)])
    ks.append([15, 1, 16, 31, 1, 32, 63, 1, 64, 127, 1, 128, 255, 1, 256, 511, 1024, 2048, 4096] * (n // 100 + 1))
    ks.append([rng.randint(1, 300) for _ in range(n // 20 + 2)])
    ks.append([n])
    return ks


def c20_judge(text, rng, res=None, nchunk=3):
    rf = osmt.run_opensmt(text, flavour="rel", cpu_s=10)
    if rf.timeout or rf.crashed():
        return [], "skip"
    if "yntax error" in rf.out or "At line" in rf.out:
        return [], "syntax"       # only syntactically valid scripts are in scope
    bad = []
    for ch in rng.sample(chunkings(len(text.encode()), rng), nchunk):
        rc, out, err = run_pipe_chunked(text, ch, rng)
        if rc is None or rc < 0:
            continue
        if res is not None:
            res.evals += 1
        o = out.decode("utf-8", "replace")
        if o != rf.out or rc != rf.rc:
            kind = "stdout" if o != rf.out else "exit-status"
            sym = "exit" if "(exit)" in text else "noexit"
            first = next((i for i, (a, b) in enumerate(zip(o.split("\n"), rf.out.split("\n"))) if a != b), -1)
            bad.append((kind, sym, "pipe mode differs from file mode (%s): file rc=%s pipe rc=%s, first differing line %d\n--- file stdout ---\n%s\n--- pipe stdout ---\n%s" % (
                kind, rf.rc, rc, first, rf.out[:800], o[:800]), ch[:50]))
            break
    return bad, "ok"


def c20_case(seed):
    res = CaseResult()
    text, rng = c20_build(seed)
    bad, st = c20_judge(text, rng, res)
    res.inc("scripts_" + st)
    if st == "ok" and not bad:
        res.dkeys.append(h(text))
    if seed % 71 == 0:
        res.sample = {"script_head": text[:900]}
    for kind, sym, detail, ch in bad[:1]:
        lines = text.split("\n")
        # shrink by lines
        calls = 0
        i = len(lines) - 1
        while i >= 0 and calls < 30:
            cand = "\n".join(lines[:i] + lines[i + 1:])
            calls += 1
            b2, st2 = c20_judge(cand, random.Random(1), None, nchunk=5)
            if st2 == "ok" and any(x[0] == kind for x in b2):
                lines = lines[:i] + lines[i + 1:]
            i -= 1
        small = "\n".join(lines)
        b3, _ = c20_judge(small, random.Random(1), None, nchunk=5)
        d = b3[0][2] if b3 else detail
        res.viol.append(Violation("pipe-differs-" + kind, c20_site(small), d + "\n--- input ---\n" + small[:2000],
                                  {"text": small, "prop": "C20"}))
    return res


def c20_site(text):
    f = []
    if "(exit)" in text:
        f.append("exit")
    if '\\"' in text:
        f.append("escquote")
    if "|" in text:
        f.append("quoted")
    if ";" in text:
        f.append("comment")
    if "\r" in text:
        f.append("crlf")
    return "+".join(f) or "plain"


def c20_replay(w):
    bad, st = c20_judge(w["text"], random.Random(1), None, nchunk=5)
    return [Violation("pipe-differs-" + b[0], c20_site(w["text"]), "replayed\n" + b[2][:500], w) for b in bad[:1]]


# --------------------------------------------------------------------------- C23

def c23_build(seed):
    kind = seed % 5
    rng = random.Random(seed * 71 + 1)
    if kind == 0:
        cmds = models.build(seed)
    elif kind == 1:
        cmds = cores.build(seed, "C06")
    elif kind == 2:
        cmds = itp.build(seed, "C08")
    elif kind == 3:
        cmds = answers.build_case(seed, "C01")
    else:
        g = gen.ScriptGen(seed, logics=gen.ALL_LOGICS)
        opts = [(":produce-proofs", "true")] + configs.sat_tuning(rng)
        cmds = g.header(opts) + g.history(rng.randint(6, 16), queries=("get-proof",))
    return [c for c in cmds if not (c["k"] == "set-option" and c["name"] in (":ghost-vars",))], kind


def c23_judge(text, res=None, runs=3):
    outs = []
    for k in range(runs):
        env = {"VERIF_PAD": "x" * (k * 1531)}
        exe = None
        r = osmt.run_opensmt(text, flavour="rel", cpu_s=10, env=env)
        if r.timeout or r.crashed():
            return None
        outs.append((r.out, r.rc))
    # one run with ASLR disabled
    exe = build.opensmt_path("rel")
    d = osmt.scratch_dir("scripts")
    import tempfile
    fd, path = tempfile.mkstemp(suffix=".smt2", dir=d)
    with os.fdopen(fd, "w") as f:
        f.write(text)
    try:
        p = subprocess.run(["setarch", "-R", "prlimit", "--cpu=10", exe, path], stdout=subprocess.PIPE, stderr=subprocess.PIPE, timeout=60)
        if p.returncode in (0, 1):
            outs.append((p.stdout.decode("utf-8", "replace"), p.returncode))
    except Exception:
        pass
    finally:
        os.remove(path)
    if res is not None:
        res.evals += len(outs)
    return outs


def c23_case(seed):
    res = CaseResult()
    cmds, kind = c23_build(seed)
    text = gen.render(cmds, markers=False)
    outs = c23_judge(text, res)
    res.inc("kind_%d" % kind)
    if outs is None:
        res.inc("skipped_timeout_or_crash")
        return res
    if len(set(outs)) > 1:
        a, b = outs[0], next(o for o in outs if o != outs[0])
        la, lb = a[0].split("\n"), b[0].split("\n")
        first = next((i for i, (x, y) in enumerate(zip(la, lb)) if x != y), min(len(la), len(lb)))
        what = "query-output" if first < len(la) and not la[first].strip() in ("sat", "unsat", "unknown") else "answer"
        res.viol.append(Violation("nondeterministic-output", "%s:%s:%s" % (sr.logic_of(cmds), configs.engine_of(sr.option_state(cmds)["options"]), what),
                                  "two runs of the same script differ at output line %d:\n  run A: %s\n  run B: %s\n--- script ---\n%s" % (
                                      first, la[first][:300] if first < len(la) else "<eof>", lb[first][:300] if first < len(lb) else "<eof>", text[:3000]),
                                  {"text": text, "prop": "C23"}))
    else:
        res.dkeys.append(h(text))
    if seed % 59 == 0:
        res.sample = {"script_head": text[:800], "stdout_head": outs[0][0][:300], "runs_compared": len(outs)}
    return res


def c23_replay(w):
    outs = c23_judge(w["text"], None, runs=5)
    if outs and len(set(outs)) > 1:
        return [Violation("nondeterministic-output", "replayed", "replayed", w)]
    return []


# --------------------------------------------------------------------------- main

def main(prop, tier):
    camp = Campaign(prop, tier)
    n = N_QUICK[prop] if tier == "quick" else N_THOROUGH[prop]
    n = int(__import__("os").environ.get("VERIF_CASES", n))     # experiments only
    base = camp.seed * 1000003 + {"C18": 18000, "C20": 20000, "C23": 23000}[prop]
    if prop == "C18":
        kinds = ["inject", "inject", "mutate", "mutate", "mutate", "grammar"]
        camp.rule = ("ASan+UBSan build of the executable on (a) valid generated scripts with exactly one injected problem of 20 "
                     "kinds (file and pipe mode): diagnostic on stdout AND exit status != 0 required; (b) byte/token mutants and "
                     "splices of the 519 regression files; (c) grammar-based command soups; every run: no signal, no sanitizer "
                     "report, no uncaught exception, exit in {0,1}, a printed diagnostic implies exit != 0, inputs without "
                     "check-sat finish within 20 s (re-run 40 s); distinct_nontrivial = distinct (input, mode) runs that passed")
        camp.assumptions = ["sanitizers only see executed paths", "CPU-time budgets only (no wall-clock verdicts)"]
        camp.run(c18_case, [(base + i, kinds[i % len(kinds)]) for i in range(n)], chunksize=2)
        return camp.finish(replay_fn=c18_replay, min_evals=n // 2)
    if prop == "C20":
        camp.rule = ("syntactically valid generated scripts rendered with hostile layout (comments, string literals and quoted "
                     "symbols containing parentheses, semicolons, bars, doubled quotes; CRLF; no trailing newline; (exit) "
                     "mid-script) run from a file and through -p with 3 of 5 chunkings (byte-by-byte, small primes, "
                     "16*2^k +-1 buffer boundaries, random, single write) and random pauses; stdout and exit status must be "
                     "byte-identical; distinct_nontrivial = distinct scripts compared without difference")
        camp.assumptions = ["file-mode parse without 'syntax error' defines 'syntactically valid'"]
        camp.run(c20_case, [base + i for i in range(n)], chunksize=2)
        return camp.finish(replay_fn=c20_replay, min_evals=n // 2)
    if prop == "C23":
        camp.rule = ("scripts printing containers (models, values, assignments, cores, interpolants, proofs) under random option "
                     "vectors incl. explicit seeds, run 3 times with ASLR on and different environment sizes plus once under "
                     "setarch -R; stdout and exit status must be byte-identical; distinct_nontrivial = distinct scripts with "
                     "identical outputs on all runs")
        camp.assumptions = ["ASLR enabled on this machine (randomize_va_space=2)", "tracing hooks off"]
        try:
            camp.extra["randomize_va_space"] = open("/proc/sys/kernel/randomize_va_space").read().strip()
        except Exception:
            pass
        camp.run(c23_case, [base + i for i in range(n)], chunksize=2)
        return camp.finish(replay_fn=c23_replay, min_evals=n)
    return 2
