"""C06 (unsat cores are unsat and name current assertions only) and C07 (minimal cores irreducible)."""
import random

from .. import gen, refs, configs, scriptrun as sr, outputs, sexpr
from ..core import Campaign, CaseResult, Violation, h
from ..terms import to_smt, T, strip_named, names_in

N_QUICK = {"C06": 300, "C07": 300}
N_THOROUGH = {"C06": 16000, "C07": 12000}


def build(seed, prop):
    rng = random.Random(seed * 41 + 17)
    logic = gen.ALL_LOGICS[seed % len(gen.ALL_LOGICS)]
    g = gen.ScriptGen(seed, logic=logic, opts={"boundary": 0.03, "named": 0.05 if prop == "C06" else 0.0,
                                               "max_const": 2, "reuse_names": 0.5})
    options = [(":produce-unsat-cores", "true")]
    minimal = prop == "C07" or rng.random() < 0.3
    if minimal:
        options.append((":minimal-unsat-cores", "true"))
    if rng.random() < 0.3:
        options.append((":print-cores-full", "true"))
    options += configs.random_config(rng, engines=("cdcl", "cdcl", "cdcl", "cdcl", "picky", "lookahead"),
                                     substitutions=False)
    options = [o for o in options if o[0] not in (":produce-interpolants",)]
    seen = set()
    options = [o for o in options if not (o[0] in seen or seen.add(o[0]))]
    cmds = g.header(options)
    # unsat-biased histories: many small assertions over few symbols, planted contradictions, duplicates
    planted = []

    def qf(r, names):
        return [{"k": "get-unsat-core"}]

    hist = g.history(rng.randint(10, 30), p={"assert_": 0.55, "check": 0.2, "push": 0.12, "pop": 0.1, "reassert": 0.3,
                                             "define": 0.03},
                     query_fn=qf, name_p=0.75)
    # plant contradictions: after some assertion t insert (not t') for a random earlier asserted t'
    out = []
    asserted = []
    for c in hist:
        out.append(c)
        if c["k"] == "assert":
            asserted.append(strip_named(c["term"]))
            if rng.random() < 0.25:
                t = rng.choice(asserted)
                neg = T("not", (t,))
                if rng.random() < 0.7:
                    neg = T("!", (neg,), "Bool", g.tg.fresh_name())
                out.append({"k": "assert", "term": neg})
            elif rng.random() < 0.1:
                t = rng.choice(asserted)       # redundant duplicate under another name
                out.append({"k": "assert", "term": T("!", (t,), "Bool", g.tg.fresh_name())})
    out = gen.dedup_asserts(out, rng)
    # "a popped assertion leaves no trace" template: t is asserted and checked in a level that is popped; then t (or a variant
    # with the same internal form) is asserted again under a fresh name together with its negation: the core must name both
    if rng.random() < 0.35:
        t = strip_named(g.assertion(depth=rng.choice([1, 2]))["term"])
        t2 = t if rng.random() < 0.5 else g.variant(t)
        n1, n2, n3 = g.tg.fresh_name(), g.tg.fresh_name(), g.tg.fresh_name()
        # in a level of its own at the start of the script, so that nothing else is on the stack
        out = [{"k": "push", "n": 1},
               {"k": "push", "n": 1}, {"k": "assert", "term": T("!", (t,), "Bool", n1)}, {"k": "check-sat"}, {"k": "pop", "n": 1},
               {"k": "assert", "term": T("!", (t2,), "Bool", n2)}, {"k": "assert", "term": T("!", (T("not", (t,)),), "Bool", n3)},
               {"k": "check-sat"}, {"k": "get-unsat-core"},
               {"k": "pop", "n": 1}] + out
    # minimal cores: the unnamed assertions may be unsatisfiable on their own while the proof found first runs through one
    # named assertion; the minimal core is then empty (in a level of its own at the start of the script)
    if minimal and rng.random() < 0.3:
        p_, q_ = g.tg.boolean(0), g.tg.boolean(1)
        if to_smt(p_, "ref") != to_smt(q_, "ref"):
            n1 = g.tg.fresh_name()
            tpl = [{"k": "assert", "term": T("!", (p_,), "Bool", n1)}, {"k": "assert", "term": T("not", (p_,))},
                   {"k": "assert", "term": q_}, {"k": "assert", "term": T("not", (q_,))}]
            if rng.random() < 0.5:
                tpl = tpl[2:] + tpl[:2]
            out = [{"k": "push", "n": 1}] + tpl + [{"k": "check-sat"}, {"k": "get-unsat-core"}, {"k": "pop", "n": 1}] + out
    return cmds + out


def top_named(m):
    """(name, term) for current assertions named at top level; unnamed = the other current assertions."""
    named, unnamed = [], []
    for a in m.assertions():
        if a.op == "!":
            named.append((a.val, a.args[0]))
        else:
            unnamed.append(a)
    return named, unnamed


def problem(cmds, m, terms, printed=None):
    """Reference problem over `terms` (ASTs) plus printed formulas (sexprs)."""
    lines = ["(set-logic ALL)"]
    lines += [gen.cmd_text(c, "ref") for c in sr.decls_of(cmds)]
    lines += [gen.cmd_text(c, "ref") for c in m.defs().values()]
    ctx = outputs.RefCtx()
    pl = ["(assert %s)" % outputs.term_to_ref(x, ctx) for x in (printed or [])]
    lines += ctx.decls()
    lines += ["(assert %s)" % to_smt(t, "ref") for t in terms]
    lines += pl
    lines.append("(check-sat)")
    return "\n".join(lines) + "\n"


gen_ops = {"and", "or", "=>", "xor", "ite", "=", "distinct", "<", "<=", ">", ">=", "let", "true", "false", "var"}


def decide(text):
    q = refs.quick(text)
    if q not in ("sat", "unsat"):
        return "inconclusive"
    return refs.consensus(text, first=q)


def judge(cmds, prop, res=None):
    run, resp, last = sr.execute(cmds, cpu_s=4)
    st = sr.option_state(cmds)
    full = configs.has(st["options"], ":print-cores-full")
    minimal = configs.has(st["options"], ":minimal-unsat-cores")
    bad = []
    state = None
    for i, c, r, m in sr.walk(cmds, resp, last):
        k = c["k"]
        if k in ("assert", "push", "pop", "define-fun"):
            state = None
        elif k == "check-sat":
            state = sr.answer_of(r)
        elif k == "get-unsat-core" and state == "unsat":
            if res is not None:
                res.evals += 1
            if not configs.has(st["options"], ":produce-unsat-cores"):
                continue
            if sr.is_error(r):
                from .models import errkind
                bad.append((i, "core-refused:" + errkind(r), "get-unsat-core after unsat answered %s" % r[:200]))
                continue
            try:
                core = outputs.parse_core(r)
            except outputs.OutputError as e:
                bad.append((i, "malformed-core", "%s\n%s" % (e, r[:300])))
                continue
            named, unnamed = top_named(m)
            if not full:
                if not all(isinstance(x, str) for x in core):
                    bad.append((i, "malformed-core", "core entry is not a name: %s" % r[:300]))
                    continue
                names = [sexpr.unquote(x) for x in core]
                if len(set(names)) != len(names):
                    bad.append((i, "core-repeats-name", "core %s" % names))
                    continue
                ndict = {}
                for n, t in named:
                    ndict.setdefault(n, t)
                allnames = m.names()
                cur = [strip_named(a) for a in m.assertions()]
                cur_txt = {to_smt(a, "ref") for a in cur}
                stale = [n for n in names if n not in ndict and not (
                    n in allnames and to_smt(strip_named(allnames[n]), "ref") in cur_txt)]
                if stale:
                    kind = "popped-or-unknown" if any(n not in allnames for n in stale) else "nested-name"
                    bad.append((i, "core-name-not-current-assertion:" + kind,
                                "core %s contains %s which do not name a current assertion (visible names: %s)" % (
                                    names, stale, sorted(allnames))))
                    continue
                terms = [ndict[n] if n in ndict else strip_named(allnames[n]) for n in names]
                if prop == "C06":
                    v = decide(problem(cmds, m, terms + unnamed))
                    if v == "sat":
                        # symptom: top operator of a named current assertion whose addition makes the core unsat
                        missing = "none"
                        status = None
                        for n2, t2 in named:
                            if n2 not in names and decide(problem(cmds, m, terms + unnamed + [t2])) == "unsat":
                                t3 = t2
                                while t3.op == "not":
                                    t3 = t3.args[0]
                                missing = t3.op if t3.op in gen_ops else ("var" if not t3.args else "app")
                                status = term_dup_status(cmds, i, t2)     # judged on the assertion that is missing, not on the script
                                break
                        bad.append((i, "core-satisfiable", "core %s together with the %d unnamed current assertions is satisfiable\n%s" % (
                            names, len(unnamed), problem(cmds, m, terms + unnamed)), "missing-" + missing, status))
                    elif v == "inconclusive":
                        if res is not None:
                            res.inconclusive += 1
                    elif res is not None:
                        res.inc("cores_validated")
                        res.inc("core_size_%d" % min(len(names), 6))
                if prop == "C07" and minimal:
                    for j in range(len(names)):
                        rest = terms[:j] + terms[j + 1:]
                        v = decide(problem(cmds, m, rest + unnamed))
                        if res is not None:
                            res.evals += 1
                        if v == "unsat":
                            bad.append((i, "core-reducible", "minimal core %s stays unsat without %s" % (names, names[j])))
                            break
                        elif v == "inconclusive" and res is not None:
                            res.inconclusive += 1
                    else:
                        if res is not None:
                            res.inc("cores_irreducible")
                            res.inc("core_size_%d" % min(len(names), 6))
            else:
                printed = list(core)
                if prop == "C06":
                    # every printed formula must be (equivalent to) a current assertion
                    cur = [strip_named(a) for a in m.assertions()]
                    okall = True
                    for f in printed:
                        found = False
                        for a in cur:
                            ctx = outputs.RefCtx()
                            lines = ["(set-logic ALL)"] + [gen.cmd_text(x, "ref") for x in sr.decls_of(cmds)] + \
                                    [gen.cmd_text(x, "ref") for x in m.defs().values()]
                            ftxt = outputs.term_to_ref(f, ctx)
                            lines += ctx.decls()
                            lines.append("(assert (not (= %s %s)))" % (ftxt, to_smt(a, "ref")))
                            q = refs.quick("\n".join(lines) + "\n(check-sat)\n")
                            if q == "unsat":
                                found = True
                                break
                            if q not in ("sat", "unsat"):
                                found = None
                        if found is False:
                            bad.append((i, "full-core-formula-not-an-assertion",
                                        "printed %s is not equivalent to any current assertion" % sexpr.dump(f)[:300]))
                            okall = False
                            break
                        if found is None:
                            okall = False
                            if res is not None:
                                res.inconclusive += 1
                    if okall:
                        v = decide(problem(cmds, m, [], printed))
                        if v == "sat":
                            bad.append((i, "core-satisfiable", "the printed full core alone is satisfiable\n%s" % r[:600]))
                        elif v == "unsat" and res is not None:
                            res.inc("full_cores_validated")
                        elif res is not None:
                            res.inconclusive += 1
                if prop == "C07" and minimal:
                    for j in range(len(printed)):
                        v = decide(problem(cmds, m, [], printed[:j] + printed[j + 1:]))
                        if res is not None:
                            res.evals += 1
                        if v == "unsat":
                            bad.append((i, "core-reducible", "minimal full core stays unsat without %s" % sexpr.dump(printed[j])[:200]))
                            break
                    else:
                        if res is not None:
                            res.inc("cores_irreducible")
    return bad, run


def dup_symptom(cmds, upto=None):
    """'dup' if two assertions / named sub-terms that are on the assertion stack together (at command #upto, default: at any
    time) are logically equivalent: opensmt identifies assertions by their (simplified) term, so such scripts hit the known
    'one formula asserted or named twice' limitation.  'poppedeq' if a current assertion is only equivalent to one that was
    popped before (a different situation: the popped one must leave no trace).  Everything else is 'nodup'."""
    levels = [[]]
    allterms = []          # (term text, serial)
    pairs_cur, pairs_pop = set(), set()
    live = {}
    serial = 0
    popped = []

    def add(t):
        nonlocal serial
        txt = to_smt(t, "ref")
        for k, (otxt, _) in live.items():
            pairs_cur.add((otxt, txt))
        for otxt in popped:
            pairs_pop.add((otxt, txt))
        live[serial] = (txt, len(levels) - 1)
        levels[-1].append(serial)
        serial += 1

    for idx, c in enumerate(cmds):
        if upto is not None and idx > upto:
            break
        if c["k"] == "push":
            for _ in range(c["n"]):
                levels.append([])
        elif c["k"] == "pop":
            for _ in range(min(c["n"], len(levels) - 1)):
                for sid in levels.pop():
                    popped.append(live.pop(sid)[0])
        elif c["k"] == "assert":
            add(strip_named(c["term"]))
            for t in [strip_named(t) for _, t in names_in(c["term"])][1 if c["term"].op == "!" else 0:]:
                add(t)
    decls = [gen.cmd_text(c, "ref") for c in sr.decls_of(cmds)] + \
            [gen.cmd_text(c, "ref") for c in cmds if c["k"] == "define-fun"]

    def equivalent(pairs):
        if any(a == b for a, b in pairs):
            return True
        for a, b in list(pairs)[:90]:
            if refs.quick("\n".join(decls + ["(assert (not (= %s %s)))" % (a, b)])) == "unsat":
                return True
        return False
    if equivalent(pairs_cur):
        return "dup"
    if equivalent(pairs_pop):
        return "poppedeq"
    return "nodup"


def term_dup_status(cmds, upto, term):
    """Like dup_symptom, but only for one assertion: is `term` equivalent to *another* assertion / named sub-term on the stack
    at command #upto ('dup'), only to a popped one ('poppedeq'), or to none ('nodup')."""
    levels = [[]]
    popped = []
    for idx, c in enumerate(cmds):
        if upto is not None and idx > upto:
            break
        if c["k"] == "push":
            for _ in range(c["n"]):
                levels.append([])
        elif c["k"] == "pop":
            for _ in range(min(c["n"], len(levels) - 1)):
                popped += levels.pop()
        elif c["k"] == "assert":
            levels[-1].append(to_smt(strip_named(c["term"]), "ref"))
            for t in [strip_named(t) for _, t in names_in(c["term"])][1 if c["term"].op == "!" else 0:]:
                levels[-1].append(to_smt(t, "ref"))
    cur = [t for lv in levels for t in lv]
    me = to_smt(strip_named(term), "ref")
    if me in cur:
        cur.remove(me)
    decls = [gen.cmd_text(c, "ref") for c in sr.decls_of(cmds)] + \
            [gen.cmd_text(c, "ref") for c in cmds if c["k"] == "define-fun"]

    def eq_any(others):
        if me in others:
            return True
        for o in list(dict.fromkeys(others))[:60]:
            if refs.quick("\n".join(decls + ["(assert (not (= %s %s)))" % (me, o)])) == "unsat":
                return True
        return False
    if eq_any(cur):
        return "dup"
    if eq_any(popped):
        return "poppedeq"
    return "nodup"


def site_for(cls, cmds, b=None):
    if cls.startswith("core-refused"):
        return "any"
    upto = b[0] if b is not None and isinstance(b[0], int) else None
    if b is not None and len(b) > 4 and b[4]:
        return site_for_(cls, cmds) + ":" + b[4] + ":" + b[3]
    if b is not None and len(b) > 3:
        return site_for_(cls, cmds) + ":" + dup_symptom(cmds, upto) + ":" + b[3]
    if cls.startswith("core-satisfiable") or cls.startswith("core-reducible") or cls.startswith("core-name-not") \
            or cls.startswith("full-core-formula"):
        return site_for_(cls, cmds) + ":" + dup_symptom(cmds, upto)
    return site_for_(cls, cmds)


def site_for_(cls, cmds):
    parts = []
    st = sr.option_state(cmds)
    if configs.has(st["options"], ":print-cores-full"):
        parts.append("full")
    if any(c["k"] == "pop" for c in cmds):
        parts.append("pop")
    return ":".join(parts) or "plain"


def site_for_old(cls, cmds):
    st = sr.option_state(cmds)
    parts = [sr.logic_of(cmds), configs.engine_of(st["options"])]
    if configs.has(st["options"], ":print-cores-full"):
        parts.append("full")
    if configs.has(st["options"], ":minimal-unsat-cores"):
        parts.append("min")
    if any(c["k"] == "pop" for c in cmds):
        parts.append("pop")
    return ":".join(parts)


def case(param):
    seed, prop = param
    res = CaseResult()
    cmds = build(seed, prop)
    bad, run = judge(cmds, prop, res)
    res.inc("logic_" + sr.logic_of(cmds))
    if run.timeout:
        res.inc("timeout")
    if run.crashed():
        res.inc("crash_seen_(C18)")
    if res.feat.get("cores_validated") or res.feat.get("cores_irreducible") or res.feat.get("full_cores_validated"):
        res.dkeys.append(h(gen.render(cmds, markers=False)))
    if seed % 47 == 0:
        res.sample = {"script": gen.render(cmds, markers=False)[:1800], "stdout": run.out[:500]}
    seen = set()
    for b in bad:
        cls = b[1]
        if cls in seen:
            continue
        seen.add(cls)

        from ..core import is_known
        if is_known(prop, cls, site_for(cls, cmds, b)):
            res.viol.append(Violation(cls, site_for(cls, cmds, b), "%s (command #%d, not minimised: matches a known finding)\n%s" % (
                cls, b[0], b[2][:600]), sr.witness(cmds, prop=prop)))
            continue

        def pred(cand, cls=cls):
            bb, _ = judge(cand, prop)
            return any(x[1] == cls for x in bb)
        small = sr.shrink(cmds, pred, budget=50)
        bb, _ = judge(small, prop)
        bb = [x for x in bb if x[1] == cls]
        if not bb:
            small, bb = cmds, [b]
        res.viol.append(Violation(cls, site_for(cls, small, bb[0]), "%s (command #%d)\n%s\n--- script ---\n%s" % (
            cls, bb[0][0], bb[0][2][:1200], gen.render(small, markers=False)), sr.witness(small, prop=prop)))
    return res


def replay(prop):
    def f(w):
        cmds = sr.cmds_from_witness(w)
        bad, _ = judge(cmds, prop)
        out, seen = [], set()
        for b in bad:
            if b[1] not in seen:
                seen.add(b[1])
                out.append(Violation(b[1], site_for(b[1], cmds, b), "replayed: " + b[2][:300], w))
        return out
    return f


def main(prop, tier):
    camp = Campaign(prop, tier)
    n = N_QUICK[prop] if tier == "quick" else N_THOROUGH[prop]
    n = int(__import__("os").environ.get("VERIF_CASES", n))     # experiments only
    base = camp.seed * 1000003 + (6000 if prop == "C06" else 7000)
    if prop == "C06":
        camp.rule = ("unsat-biased histories in all 17 logics with named/unnamed/nested-named assertions, planted "
                     "contradictions, duplicates, names popped and re-introduced, minimal/full options; after each unsat the "
                     "printed core must be a repetition-free list of names of current assertions, and core + unnamed current "
                     "assertions must be unsat (z3 + cvc5); full cores: each printed formula equivalent to a current assertion "
                     "and the printed set unsat; distinct_nontrivial = scripts with >=1 validated core")
    else:
        camp.rule = ("as C06 with :minimal-unsat-cores; for every reported core each single removal must leave "
                     "core-minus-one + unnamed assertions satisfiable (z3 + cvc5); distinct_nontrivial = scripts with >=1 "
                     "core shown irreducible")
    camp.assumptions = ["z3 5.1 + cvc5 consensus on small QF problems", "generator scope model for names"]
    camp.run(case, [(base + i, prop) for i in range(n)])
    return camp.finish(replay_fn=replay(prop), min_evals=20)
