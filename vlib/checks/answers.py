"""C01 / C02: check-sat answers vs the reference consensus on the generator's own stack."""
import random

from .. import gen, refs, configs, scriptrun as sr
from ..core import Campaign, CaseResult, Violation, h

N_QUICK = {"C01": 1400, "C02": 1400}
N_THOROUGH = {"C01": 24000, "C02": 24000}

BIAS = {
    # C01: all logics evenly; C02: emphasis on integers, DL with big constants, arrays, UF+arith
    "C01": None,
    "C02": ["QF_LIA", "QF_LIA", "QF_IDL", "QF_IDL", "QF_RDL", "QF_UFLIA", "QF_UFLRA", "QF_AX",
            "QF_ALIA", "QF_AUFLIA", "QF_UFIDL", "ALL", "QF_ALRA", "QF_UF", "QF_LRA", "QF_UFRDL",
            "QF_AUFLRA", "QF_AUFLIRA", "QF_UF_prop"],
}


def build_case(seed, prop):
    rng = random.Random(seed * 7919 + 13)
    logics = BIAS[prop] or gen.ALL_LOGICS
    logic = logics[seed % len(logics)] if prop == "C01" else rng.choice(logics)
    opts = {"boundary": 0.12 if prop == "C02" else 0.06, "let": 0.05, "big_coeff": 0.05}
    if gen.LOGICS[logic]["dl"]:
        opts["boundary"] = 0.2
    if logic in ("QF_UF", "QF_UF_prop"):
        opts["diamond"] = 0.3
    g = gen.ScriptGen(seed, logic=logic, opts=opts)
    options = configs.random_config(rng, allow_nonincremental=True)
    incremental = not configs.has(options, ":incremental", "false")
    if logic == "QF_UF" and rng.random() < 0.75:
        options = [o for o in options if not o[0].startswith(":produce-")]
        cmds = g.header(options) + g.diamond_script() + [{"k": "check-sat"}]
        if incremental and rng.random() < 0.4:
            cmds += [{"k": "push", "n": 1}] + g.diamond_script() + [{"k": "check-sat"}]
        return cmds
    cmds = g.header(options)
    if incremental and rng.random() < 0.6:
        cmds += g.history(rng.randint(6, 16))
    else:
        for _ in range(rng.randint(1, 6)):
            cmds.append(g.assertion())
        cmds.append({"k": "check-sat"})
    return cmds


def judge(cmds, want, res=None, flavour="rel", cpu_s=6):
    """Run and compare every definitive answer with the references.
    want: 'unsat' (C01 reports wrong unsat), 'sat' (C02 reports wrong sat) or None (both).
    Returns list of (index, answer, reference) contradictions confirmed by consensus."""
    run, resp, last = sr.execute(cmds, flavour=flavour, cpu_s=cpu_s)
    bad = []
    for i, c, r, m in sr.walk(cmds, resp, last):
        if c["k"] != "check-sat":
            continue
        ans = sr.answer_of(r)
        if res is not None:
            res.evals += 1
            res.inc("answer_" + str(ans))
        if ans not in ("sat", "unsat"):
            if res is not None:
                res.inconclusive += 1
            continue
        text = sr.ref_problem(cmds, m)
        q = refs.quick(text)
        if q == ans:
            continue
        if q not in ("sat", "unsat"):
            if res is not None:
                res.inconclusive += 1
                res.inc("ref_" + q.split(":")[0])
            continue
        con = refs.consensus(text, first=q)
        if con == "inconclusive":
            if res is not None:
                res.inconclusive += 1
            continue
        if con != ans:
            bad.append((i, ans, con))
    if run.timeout and res is not None:
        res.inc("timeout")
    if run.crashed() and res is not None:
        res.inc("crash_seen_(C18)")
    return [b for b in bad if want is None or b[1] == want], run


def case(param):
    seed, prop = param
    res = CaseResult()
    cmds = build_case(seed, prop)
    want = "unsat" if prop == "C01" else "sat"
    bad, run = judge(cmds, want, res)
    st = sr.option_state(cmds)
    res.inc("logic_" + sr.logic_of(cmds))
    res.inc("engine_" + configs.engine_of(st["options"]))
    if not st["incremental"]:
        res.inc("nonincremental")
    nchecks = sum(1 for c in cmds if c["k"] == "check-sat")
    if nchecks and not run.timeout:
        res.dkeys.append(h(gen.render(cmds, markers=False)))
    if seed % 97 == 0:
        res.sample = {"script": gen.render(cmds, markers=False)[:1500], "stdout": run.out[:300]}
    if bad:
        cls = "wrong-unsat" if prop == "C01" else "wrong-sat"

        def pred(cand):
            b, _ = judge(cand, want)
            return bool(b)
        small = sr.shrink(cmds, pred, budget=80)
        b2, run2 = judge(small, want)
        if not b2:
            small, b2, run2 = cmds, bad, run
        res.viol.append(Violation(
            cls, sr.site_of(small),
            "check-sat #%d answered %s, references say %s\n%s" % (b2[0][0], b2[0][1], b2[0][2],
                                                                  gen.render(small, markers=False)),
            sr.witness(small, prop=prop)))
    return res


def replay(prop):
    def f(w):
        cmds = sr.cmds_from_witness(w)
        want = "unsat" if prop == "C01" else "sat"
        bad, _ = judge(cmds, want)
        if bad:
            cls = "wrong-unsat" if prop == "C01" else "wrong-sat"
            return [Violation(cls, sr.site_of(cmds), "replayed: check-sat #%d %s vs %s" % bad[0], w)]
        return []
    return f


def main(prop, tier, replay_path=None):
    camp = Campaign(prop, tier)
    n = N_QUICK[prop] if tier == "quick" else N_THOROUGH[prop]
    n = int(__import__("os").environ.get("VERIF_CASES", n))     # experiments only
    base = camp.seed * 1000003
    camp.rule = ("generated scripts over all 17 logic names x option vectors (engines, seeds, restarts, tracking, "
                 ":incremental false) x single-query/push-pop histories; every definitive check-sat answer is compared "
                 "with z3-5.1 on the generator's own assertion stack and a contradiction must be confirmed by cvc5 "
                 "(or z3-4.8) before it counts; distinct_nontrivial = distinct scripts with >=1 answered check-sat")
    camp.assumptions = ["SMT-LIB semantics as implemented by z3 5.1 and cvc5 1.0.3 (two must agree)",
                        "generator stack model mirrors accepted commands only"]
    camp.run(case, [(base + i, prop) for i in range(n)])
    return camp.finish(replay_fn=replay(prop), min_evals=n // 2)
