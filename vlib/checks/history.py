"""C04 (incremental == fresh), C05 (configuration independence), C29 (outside the declared logic),
C30 (bounded progress outside integer arithmetic)."""
import random

from .. import gen, refs, configs, scriptrun as sr, osmt
from ..core import Campaign, CaseResult, Violation, h
from ..terms import T, mkvar

N_QUICK = {"C04": 900, "C05": 400, "C29": 600, "C30": 260}
N_THOROUGH = {"C04": 12000, "C05": 6000, "C29": 20000, "C30": 6000}


# --------------------------------------------------------------------------- C04

def query_fn_for(options):
    def f(rng, names):
        out = []
        if configs.has(options, ":produce-models") and rng.random() < 0.7:
            out.append({"k": "get-model"})
        if configs.has(options, ":produce-unsat-cores") and rng.random() < 0.7:
            out.append({"k": "get-unsat-core"})
        if configs.has(options, ":produce-assignments") and rng.random() < 0.5:
            out.append({"k": "get-assignment"})
        if configs.has(options, ":produce-interpolants") and len(names) >= 2 and rng.random() < 0.7:
            k = rng.randint(1, len(names) - 1)
            ns = list(names)
            rng.shuffle(ns)
            out.append({"k": "get-interpolants", "groups": [ns[:k], ns[k:]]})
        if configs.has(options, ":produce-proofs") and rng.random() < 0.2:
            out.append({"k": "get-proof"})
        return out
    return f


def c04_build(seed):
    rng = random.Random(seed * 31 + 5)
    namer = None
    if rng.random() < 0.3:
        namer = lambda kind, i: "%s%s" % ("x" if kind == "r" else kind, i)   # names like get-model's formals
    g = gen.ScriptGen(seed, logics=gen.ALL_LOGICS, opts={"boundary": 0.05}, namer=namer)
    want = [o for o in (":produce-models", ":produce-unsat-cores", ":produce-interpolants",
                        ":produce-proofs", ":produce-assignments") if rng.random() < 0.3]
    options = configs.random_config(rng, engines=("cdcl", "cdcl", "cdcl", "cdcl", "picky", "lookahead", "ghost"),
                                    want=want)
    if g.logic not in gen.ITP_LOGICS:
        options = [o for o in options if o[0] != ":produce-interpolants"]
    if g.logic not in gen.MODEL_LOGICS:
        options = [o for o in options if o[0] != ":produce-models"]
    cmds = g.header(options)
    hist = g.history(rng.randint(15, 45), p={"reassert": 0.4, "check": 0.28, "pop": 0.17, "push": 0.17},
                     query_fn=query_fn_for(options),
                     name_p=0.6 if configs.has(options, ":produce-interpolants") or configs.has(options, ":produce-unsat-cores") else 0.1)
    # planted contradictions make more of the checks unsat (a lost or stale clause then changes an answer)
    out = []
    asserted = []
    from ..terms import strip_named
    for c in hist:
        out.append(c)
        if c["k"] == "assert":
            asserted.append(strip_named(c["term"]))
            if rng.random() < 0.12:
                out.append({"k": "assert", "term": T("not", (rng.choice(asserted),))})
    return cmds + out


def fresh_script(cmds, model):
    head = [c for c in cmds if c["k"] in ("set-option", "set-logic", "declare-sort", "declare-fun")]
    body = list(model.defs().values()) + [{"k": "assert", "term": t} for t in model.assertions()]
    return head + body + [{"k": "check-sat"}]


def c04_judge(cmds, res=None):
    run, resp, last = sr.execute(cmds, cpu_s=6)
    answers = []
    bad = []
    for i, c, r, m in sr.walk(cmds, resp, last):
        if c["k"] != "check-sat":
            continue
        ans = sr.answer_of(r)
        answers.append(ans)
        if ans not in ("sat", "unsat"):
            if res is not None:
                res.inconclusive += 1
            continue
        fs = fresh_script(cmds, m)
        frun, fresp, _ = sr.execute(fs, cpu_s=6)
        fans = sr.answer_of(fresp[-1]) if fresp else None
        if res is not None:
            res.evals += 1
        if fans not in ("sat", "unsat"):
            if res is not None:
                res.inconclusive += 1
            continue
        if fans != ans:
            # symptom: an earlier check-sat that failed with an error (state possibly left inconsistent)
            errs = [_errkind(r2) for c2, r2 in zip(cmds[:i], resp[:i]) if c2["k"] == "check-sat" and sr.is_error(r2)]
            bad.append(("incremental-vs-fresh", i, ans, fans, "after-" + errs[0] if errs else "noerr"))
    # the same history with all get-* queries removed must give the same answers
    noq = [c for c in cmds if not c["k"].startswith("get-")]
    if len(noq) != len(cmds) and not run.timeout:
        qrun, qresp, qlast = sr.execute(noq, cpu_s=6)
        qans = [sr.answer_of(r) for c, r in zip(noq, qresp) if c["k"] == "check-sat"]
        if not qrun.timeout and len(qans) == len(answers):
            # symptom for the site: first error message only the run with queries produced
            errs_q = [_errkind(r) for c, r in zip(cmds, resp) if sr.is_error(r) and not c["k"].startswith("get-")]
            errs_n = [_errkind(r) for r in qresp if sr.is_error(r)]
            extra = next((e for e in errs_q if e not in errs_n), "noerr")
            for k, (a, b) in enumerate(zip(answers, qans)):
                if res is not None:
                    res.evals += 1
                if a in ("sat", "unsat") and b in ("sat", "unsat") and a != b:
                    bad.append(("queries-change-answer", k, a, b, extra))
                    break
    return bad, run, answers


def _errkind(r):
    import re
    m = re.search(r'\(error "([^"`\']*)', r)
    return re.sub(r"[^A-Za-z]+", "-", m.group(1).strip())[:40] if m else "err"


def _c04_site(cmds, b):
    return sr.site_of(cmds, extra=[b[4]] if len(b) > 4 else [])


def c04_case(seed):
    res = CaseResult()
    cmds = c04_build(seed)
    bad, run, answers = c04_judge(cmds, res)
    st = sr.option_state(cmds)
    res.inc("logic_" + sr.logic_of(cmds))
    res.inc("engine_" + configs.engine_of(st["options"]))
    res.inc("checks", len(answers))
    npop = sum(1 for c in cmds if c["k"] == "pop")
    res.inc("pops", npop)
    if run.timeout:
        res.inc("timeout")
    if npop and len([a for a in answers if a in ("sat", "unsat")]) >= 2:
        res.dkeys.append(h(gen.render(cmds, markers=False)))
    if seed % 53 == 0:
        res.sample = {"script": gen.render(cmds, markers=False)[:2000], "answers": answers}
    if bad:
        cls = bad[0][0]

        def pred(cand):
            b, _, _ = c04_judge(cand)
            return any(x[0] == cls for x in b)
        small = sr.shrink(cmds, pred, budget=100)
        b2, _, _ = c04_judge(small)
        b2 = [x for x in b2 if x[0] == cls]
        if not b2:
            small, b2 = cmds, bad
        # blame via references (information only)
        res.viol.append(Violation(cls, _c04_site(small, b2[0]),
                                  "%s at #%d: incremental=%s other=%s\n%s" % (b2[0][0], b2[0][1], b2[0][2], b2[0][3],
                                                                              gen.render(small, markers=False)),
                                  sr.witness(small, prop="C04")))
    return res


def c04_replay(w):
    cmds = sr.cmds_from_witness(w)
    bad, _, _ = c04_judge(cmds)
    return [Violation(b[0], _c04_site(cmds, b), "replayed: %s" % (b,), w) for b in bad[:1]]


# --------------------------------------------------------------------------- C05

def c05_build(seed):
    rng = random.Random(seed * 17 + 3)
    g = gen.ScriptGen(seed, logics=gen.ALL_LOGICS, opts={"boundary": 0.08})
    incremental = rng.random() < 0.4
    if incremental:
        body = g.history(rng.randint(8, 20))
    else:
        body = [g.assertion() for _ in range(rng.randint(1, 6))] + [{"k": "check-sat"}]
    decls = g.sig.decl_cmds
    return g.logic, decls, body, incremental


def c05_variants(seed, logic, incremental, k):
    rng = random.Random(seed * 101 + 7)
    out = [([], gen.LOGICS[logic]["name"])]
    engines = ["cdcl", "lookahead", "picky", "ghost", "cdcl", "lookahead-deep", "picky-w"]
    for j in range(k - 1):
        eng = engines[j % len(engines)]
        o = list(configs.ENGINES[eng]) + configs.sat_tuning(rng) + configs.tracking(rng)
        if rng.random() < 0.3:
            o.append((":do-substitutions", "false"))
        if not incremental and rng.random() < 0.4:
            o.append((":incremental", "false"))
            o += configs.simp_tuning(rng)
        name = gen.LOGICS[logic]["name"]
        if logic in gen.EMBED and rng.random() < 0.5:
            name = gen.LOGICS[rng.choice(gen.EMBED[logic])]["name"]
        seen = set()
        o = [x for x in o if not (x[0] in seen or seen.add(x[0]))]
        out.append((o, name))
    return out


def c05_run(decls, body, options, logic_name):
    cmds = [{"k": "set-option", "name": n, "val": v} for n, v in options]
    cmds.append({"k": "set-logic", "logic": logic_name})
    cmds += decls + body
    run, resp, last = sr.execute(cmds, cpu_s=6)
    ans = [sr.answer_of(r) for c, r in zip(cmds, resp) if c["k"] == "check-sat"]
    # commands (other than check-sat) answered with an error: configurations that reject different
    # commands solve different problems and are not compared
    rej = tuple(i for i, (c, r) in enumerate(zip(cmds, resp)) if c["k"] not in ("set-option", "set-logic", "check-sat")
                and sr.is_error(r))
    rej = tuple(i - len(options) for i in rej)
    return cmds, ans, run, rej


def c05_judge(decls, body, variants, res=None):
    runs = [c05_run(decls, body, o, ln) for o, ln in variants]
    bad = []
    nchecks = len(runs[0][1])
    for k in range(nchecks):
        col = [(r[1][k] if (k < len(r[1]) and r[3] == runs[0][3]) else None) for r in runs]
        if res is not None:
            res.evals += sum(1 for a in col if a in ("sat", "unsat"))
        if "sat" in col and "unsat" in col:
            bad.append((k, col.index("sat"), col.index("unsat")))
    return bad, runs


def c05_case(param):
    seed, k = param
    res = CaseResult()
    logic, decls, body, incremental = c05_build(seed)
    variants = c05_variants(seed, logic, incremental, k)
    bad, runs = c05_judge(decls, body, variants, res)
    res.inc("logic_" + logic)
    for cmds, ans, run, rej in runs:
        if rej != runs[0][3]:
            res.inc("variant_rejects_other_commands")
        res.inc("engine_" + configs.engine_of(sr.option_state(cmds)["options"]))
        if run.timeout:
            res.inc("timeout")
        if sr.logic_of(cmds) != gen.LOGICS[logic]["name"]:
            res.inc("embedded_logic")
    ndef = sum(1 for r in runs if any(a in ("sat", "unsat") for a in r[1]))
    if ndef >= 2:
        res.dkeys.append(h(gen.render(runs[0][0], markers=False)))
    if seed % 41 == 0:
        res.sample = {"script": gen.render(runs[0][0], markers=False)[:1500],
                      "configs": [configs.config_label(o) + " logic=" + ln for o, ln in variants],
                      "answers": [r[1] for r in runs]}
    if bad:
        kchk, isat, iuns = bad[0]
        pair = [variants[isat], variants[iuns]]

        def pred(cand_body):
            b, _ = c05_judge(decls, cand_body, pair)
            return bool(b)

        def pred_cmds(cand):
            return pred([c for c in cand if c["k"] not in ("declare-sort", "declare-fun")])
        small = sr.shrink(decls + body, pred_cmds, budget=80)
        sbody = [c for c in small if c["k"] not in ("declare-sort", "declare-fun")]
        b2, runs2 = c05_judge(decls, sbody, pair)
        if not b2:
            sbody = body
            b2, runs2 = c05_judge(decls, sbody, pair)
        # who is wrong? (information for the report / site)
        wrong = "?"
        st_sat = sr.option_state(runs2[0][0])
        st_uns = sr.option_state(runs2[1][0])
        site = "%s|sat:%s|unsat:%s" % (logic, sr.site_of(runs2[0][0]), sr.site_of(runs2[1][0]))
        res.viol.append(Violation(
            "config-contradiction", site,
            "check #%d: sat under [%s logic=%s], unsat under [%s logic=%s]\n%s" % (
                kchk, configs.config_label(pair[0][0]), pair[0][1], configs.config_label(pair[1][0]), pair[1][1],
                gen.render(decls + sbody, markers=False)),
            {"decls": sr.witness(decls)["cmds"], "body": sr.witness(sbody)["cmds"],
             "variants": [[list(map(list, o)), ln] for o, ln in pair], "logic": logic,
             "script": gen.render(runs2[0][0], markers=False)}))
    return res


def c05_replay(w):
    from ..terms import cmd_from_json
    decls = [cmd_from_json(c) for c in w["decls"]]
    body = [cmd_from_json(c) for c in w["body"]]
    variants = [([tuple(x) for x in o], ln) for o, ln in w["variants"]]
    bad, runs = c05_judge(decls, body, variants)
    if bad:
        site = "%s|sat:%s|unsat:%s" % (w["logic"], sr.site_of(runs[bad[0][1]][0]), sr.site_of(runs[bad[0][2]][0]))
        return [Violation("config-contradiction", site, "replayed", w)]
    return []


# --------------------------------------------------------------------------- C29

OUTSIDE = [
    # (declared logic name, generator profile actually used)
    ("QF_IDL", "QF_LIA"), ("QF_RDL", "QF_LRA"), ("QF_UFIDL", "QF_UFLIA"), ("QF_UFRDL", "QF_UFLRA"),
    ("QF_IDL", "QF_LIA"), ("QF_RDL", "QF_LRA"),
    ("QF_LRA", "nonlinear"), ("QF_LIA", "nonlinear"), ("QF_LRA", "QF_AUFLIRA"), ("QF_LIA", "QF_AUFLIRA"),
    ("QF_UF", "QF_UFLIA"), ("QF_AX", "QF_ALIA"), ("QF_LRA", "QF_LIA"), ("QF_LIA", "QF_LRA"),
]


def c29_build(seed):
    rng = random.Random(seed * 13 + 1)
    declared, profile = OUTSIDE[seed % len(OUTSIDE)]
    nonlinear = profile == "nonlinear"
    if nonlinear:
        profile = declared
    g = gen.ScriptGen(seed, logic=profile, opts={"boundary": 0.1, "divmod": 0.15, "max_const": 3})
    options = configs.random_config(rng, engines=("cdcl",), allow_nonincremental=True)
    cmds = g.header(options, logic_name=declared)
    n = rng.randint(1, 5)
    for _ in range(n):
        c = g.assertion(depth=rng.choice([1, 2]))
        cmds.append(c)
    if nonlinear:
        s = gen.LOGICS[profile]["arith"][0]
        vs = g.sig.consts[s]
        x, y = mkvar(rng.choice(vs), s), mkvar(rng.choice(vs), s)
        prod = T("*", (x, y), s)
        cmds.insert(len(cmds) - rng.randint(0, n), {"k": "assert", "term": T(rng.choice(["<=", "=", ">"]), (prod, g.tg.const(s)), "Bool")})
    if declared in ("QF_IDL", "QF_RDL") and rng.random() < 0.5:
        # near-difference atoms: a difference of two variables plus further addends with unit coefficients; if such an atom were
        # read as the difference alone, the companion difference atom would flip the answer
        s = gen.LOGICS[profile]["arith"][0]
        vs = list(g.sig.consts[s])
        if len(vs) >= 3:
            from ..terms import mknum
            rng.shuffle(vs)
            x, y, z = [mkvar(v, s) for v in vs[:3]]
            c1 = rng.randint(-3, 3)
            d = rng.randint(1, 3)
            diff = T("-", (x, y), s)
            extra = T(rng.choice(["+", "-"]), (diff, z), s) if rng.random() < 0.7 else T("+", (diff, z, mkvar(vs[3 % len(vs)], s)), s)
            if rng.random() < 0.5:
                a1 = T("<=", (extra, mknum(c1, s)), "Bool")
                a2 = T(">=", (diff, mknum(c1 + d, s)), "Bool")
            else:
                a1 = T(">=", (extra, mknum(c1, s)), "Bool")
                a2 = T("<=", (diff, mknum(c1 - d, s)), "Bool")
            pair = [{"k": "assert", "term": a1}, {"k": "assert", "term": a2}]
            rng.shuffle(pair)
            if rng.random() < 0.5:
                cmds = [c for c in cmds if c["k"] != "assert"]      # the pair alone decides
            cmds += pair
    if rng.random() < 0.5 and sr.option_state(cmds)["incremental"]:
        cmds.append({"k": "check-sat"})
        cmds.append({"k": "push", "n": 1})
        cmds.append(g.assertion(depth=2))
    cmds.append({"k": "check-sat"})
    return cmds, declared, profile + ("-nonlinear" if nonlinear else "")


def c29_judge(cmds, res=None):
    run, resp, last = sr.execute(cmds, cpu_s=6)
    bad = []
    nerr = 0
    for i, c, r, m in sr.walk(cmds, resp, last):
        if sr.is_error(r):
            nerr += 1
        if c["k"] != "check-sat":
            continue
        ans = sr.answer_of(r)
        if res is not None:
            res.evals += 1
            res.inc("answer_" + str(ans))
        if ans not in ("sat", "unsat"):
            continue
        text = sr.ref_problem(cmds, m)
        q = refs.quick(text)
        if q == ans:
            continue
        if q not in ("sat", "unsat"):
            if res is not None:
                res.inconclusive += 1
            continue
        con = refs.consensus(text, first=q)
        if con == "inconclusive":
            if res is not None:
                res.inconclusive += 1
        elif con != ans:
            bad.append((i, ans, con))
    return bad, run, nerr


def c29_case(seed):
    res = CaseResult()
    cmds, declared, profile = c29_build(seed)
    bad, run, nerr = c29_judge(cmds, res)
    res.inc("declared_%s_actual_%s" % (declared, profile))
    if nerr:
        res.inc("scripts_with_rejections")
        res.inc("rejected_commands", nerr)
    if run.crashed():
        res.inc("crash_seen_(C18)")
    if not run.timeout:
        res.dkeys.append(h(gen.render(cmds, markers=False)))
    if seed % 83 == 0:
        res.sample = {"script": gen.render(cmds, markers=False)[:1500], "stdout": run.out[:400]}
    if bad:
        def pred(cand):
            b, _, _ = c29_judge(cand)
            return bool(b)
        small = sr.shrink(cmds, pred, budget=80)
        b2, _, _ = c29_judge(small)
        if not b2:
            small, b2 = cmds, bad
        res.viol.append(Violation("wrong-answer-outside-logic", "%s<-%s:%s" % (declared, profile, "wrong-" + b2[0][1]),
                                  "declared %s, check-sat #%d answered %s, references %s\n%s" % (
                                      declared, b2[0][0], b2[0][1], b2[0][2], gen.render(small, markers=False)),
                                  sr.witness(small, prop="C29", declared=declared, profile=profile)))
    return res


def c29_replay(w):
    cmds = sr.cmds_from_witness(w)
    bad, _, _ = c29_judge(cmds)
    if bad:
        return [Violation("wrong-answer-outside-logic",
                          "%s<-%s:%s" % (w.get("declared"), w.get("profile"), "wrong-" + bad[0][1]), "replayed", w)]
    return []


# --------------------------------------------------------------------------- C30

FIRST_BUDGET = 10      # CPU seconds, screening
CONFIRM = (30, 60) if __import__("os").environ.get("VERIF_TIER_EFFECTIVE", "quick") == "quick" else (60, 120)


def c30_build(seed):
    rng = random.Random(seed * 19 + 11)
    g = gen.ScriptGen(seed, logics=gen.NONINT_LOGICS, opts={"boundary": 0.05})
    body = g.history(rng.randint(6, 24), p={"push": 0.2, "pop": 0.15, "check": 0.25})
    return g, body


def c30_configs(seed, k):
    rng = random.Random(seed * 23 + 29)
    engines = ["lookahead", "picky", "ghost", "lookahead-deep", "picky-w", "cdcl"]
    out = []
    for j in range(k):
        eng = engines[(seed + j) % len(engines)]
        o = list(configs.ENGINES[eng]) + configs.sat_tuning(rng) + configs.tracking(rng)
        seen = set()
        out.append([x for x in o if not (x[0] in seen or seen.add(x[0]))])
    return out


def c30_script(g, body, options):
    return g.header(options) + body


def c30_site(cmds, stuck_at):
    st = sr.option_state(cmds)
    # feature: does the script check an empty pushed frame? (no clause mentions the frame literal)
    return "%s:%s" % (configs.engine_of(st["options"]), sr.logic_of(cmds))


def c30_case(param):
    seed, k = param
    res = CaseResult()
    g, body = c30_build(seed)
    base = c30_script(g, body, [])
    import time
    t0 = time.time()
    run, resp, last = sr.execute(base, cpu_s=FIRST_BUDGET)
    if time.time() - t0 > 1.0:
        res.inc("calibration_rejected")
        return res
    ans0 = [sr.answer_of(r) for c, r in zip(base, resp) if c["k"] == "check-sat"]
    if run.timeout or run.crashed() or any(a not in ("sat", "unsat") for a in ans0):
        res.inc("calibration_rejected")
        return res
    # references decide every stack quickly?
    for i, c, r, m in sr.walk(base, resp, last):
        if c["k"] == "check-sat":
            q = refs.quick(sr.ref_problem(base, m))
            if q not in ("sat", "unsat"):
                res.inc("calibration_rejected")
                return res
    res.inc("logic_" + g.logic)
    for options in c30_configs(seed, k):
        cmds = c30_script(g, body, options)
        r2, resp2, last2 = sr.execute(cmds, cpu_s=FIRST_BUDGET)
        res.evals += 1
        eng = configs.engine_of(options)
        res.inc("engine_" + eng)
        nanswered = sum(1 for c, r in zip(cmds, resp2) if c["k"] == "check-sat" and sr.answer_of(r))
        res.inc("checks_answered", nanswered)
        if r2.timeout and not r2.cpu_exhausted:
            res.inconclusive += 1
            res.inc("stopped_without_using_the_cpu_budget")      # wall-clock watchdog or SIGKILL on a loaded machine: no verdict
        elif r2.timeout:
            res.inc("screening_timeouts")
            res.viol.append(Violation("divergence-candidate", c30_site(cmds, nanswered),
                                      "no answer to check-sat #%d within %d s CPU\n%s" % (
                                          nanswered, FIRST_BUDGET, gen.render(cmds, markers=False)),
                                      sr.witness(cmds, prop="C30", stuck_at=nanswered)))
        else:
            res.dkeys.append(h(gen.render(cmds, markers=False)))
    if seed % 37 == 0:
        res.sample = {"script": gen.render(base, markers=False)[:1500], "default_answers": ans0}
    return res


def c30_confirm(w):
    """Divergence = exceeds 60 s CPU and, re-run, 120 s CPU (instance decided by default engine in < 10 s)."""
    cmds = sr.cmds_from_witness(w)
    for budget in CONFIRM:
        run, resp, last = sr.execute(cmds, cpu_s=budget)
        if not (run.timeout and run.cpu_exhausted):
            return False          # answered, or stopped by something other than the CPU budget (no verdict)
    return True


def c30_shrink(cmds):
    def pred(cand):
        run, _, _ = sr.execute(cand, cpu_s=5)
        return run.timeout
    return sr.shrink(cmds, pred, budget=40)


def c30_replay(w):
    cmds = sr.cmds_from_witness(w)
    if c30_confirm(w):
        return [Violation("divergence", c30_site(cmds, 0), "replayed: no answer within 60 s and 120 s CPU", w)]
    return []


# --------------------------------------------------------------------------- main

def main(prop, tier):
    camp = Campaign(prop, tier)
    n = N_QUICK[prop] if tier == "quick" else N_THOROUGH[prop]
    n = int(__import__("os").environ.get("VERIF_CASES", n))     # experiments only
    base = camp.seed * 1000003 + {"C04": 100, "C05": 200, "C29": 300, "C30": 400}[prop] * 1000
    if prop == "C04":
        camp.rule = ("push/pop/assert/check/get-* histories (15-45 commands, re-asserted popped formulas, all engines, "
                     "tracking options); each definitive incremental answer is compared with a fresh opensmt process on "
                     "exactly the generator's stack, and with the same history without get-* commands; "
                     "distinct_nontrivial = distinct histories with >=1 pop and >=2 definitive answers")
        camp.assumptions = ["fresh-process answer of the same binary is the reference (self-consistency)",
                            "generator stack model mirrors accepted commands only"]
        camp.run(c04_case, [base + i for i in range(n)])
        return camp.finish(replay_fn=c04_replay, min_evals=n)
    if prop == "C05":
        k = 6 if tier == "quick" else 12
        camp.rule = ("one script under K=%d configurations (engine, seed, restarts, ccmin, tracking, substitutions, "
                     ":incremental false + SatELite knobs, more expressive logic name); violation = one sat and one unsat "
                     "for the same check; distinct_nontrivial = scripts with >=2 configurations giving definitive answers" % k)
        camp.assumptions = ["pure self-consistency; references used only for blame"]
        camp.run(c05_case, [(base + i, k) for i in range(n)], chunksize=2)
        return camp.finish(replay_fn=c05_replay, min_evals=n)
    if prop == "C29":
        camp.rule = ("scripts generated with a richer profile than the declared logic (sums/scaled variables under "
                     "difference logics, non-linear products, Int/Real mix, arithmetic under QF_UF/QF_AX); every command "
                     "must be rejected or every definitive answer must agree with the two-reference consensus on the "
                     "accepted assertions; distinct_nontrivial = distinct scripts run")
        camp.assumptions = ["z3 5.1 + cvc5 consensus", "rejected commands are assumed not to change the stack (C19)"]
        camp.run(c29_case, [base + i for i in range(n)])
        return camp.finish(replay_fn=c29_replay, min_evals=n // 2)
    if prop == "C30":
        k = 3 if tier == "quick" else 6
        camp.rule = ("non-integer logics x alternative engines (lookahead, picky, ghost) x push/pop histories that the "
                     "default engine answers and z3 decides quickly; bounded-progress restatement: a check-sat exceeding "
                     "60 s CPU and, re-run, 120 s CPU is a divergence (screened at %d s); "
                     "distinct_nontrivial = (script, config) runs that returned" % FIRST_BUDGET)
        camp.assumptions = ["termination is only monitored as bounded progress (finite runs cannot decide 'eventually')"]
        camp.run(c30_case, [(base + i, k) for i in range(n)], chunksize=1)
        # confirmation pass: at most 2 candidates per site, others with the same site are attributed to it
        cands = camp.viol
        camp.viol = {}
        confirmed = {}
        by_site = {}
        for key, v in cands.items():
            by_site.setdefault(v.site, []).append(v)
        from ..core import _case_wrapper
        import multiprocessing as mp
        todo = [vs[0] for vs in by_site.values()]
        camp.feat["divergence_candidates_sites"] = len(todo)
        with mp.Pool(min(16, max(1, len(todo)))) as pool:
            results = pool.map(_confirm_one, [v.witness for v in todo])
        for v, (ok, small) in zip(todo, results):
            if ok:
                nv = Violation("divergence", v.site, "check-sat does not return within 60 s and 120 s CPU "
                               "(default engine answers in < %d s)\n%s" % (FIRST_BUDGET, small["script"]), small)
                camp.viol[nv.key()] = nv
                camp.feat["divergences_confirmed"] = camp.feat.get("divergences_confirmed", 0) + 1
            else:
                camp.inconclusive += 1
        return camp.finish(replay_fn=c30_replay, min_evals=n)
    return 2


def _confirm_one(w):
    if not c30_confirm(w):
        return False, w
    cmds = c30_shrink(sr.cmds_from_witness(w))
    return True, sr.witness(cmds, prop="C30")
