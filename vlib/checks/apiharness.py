"""Checks driven by C++ harnesses linked against libopensmt.a (asan flavour): C15 rationals, C16 numerals,
C14 term constructors, C27 integer rounding, C28 term identity, C22 theory-solver histories."""
import os
import re
import subprocess
import time

from .. import build, osmt
from ..core import Campaign, CaseResult, Violation, h

ENV = {"ASAN_OPTIONS": "abort_on_error=0:detect_leaks=0:allocator_may_return_null=1",
       "UBSAN_OPTIONS": "print_stacktrace=1:halt_on_error=1"}


def run_harness(flavour, name, args, timeout=1200, stdin=None):
    exe = build.harness_path(flavour, name)
    e = dict(os.environ)
    e.update(ENV)
    p = subprocess.run([exe] + [str(a) for a in args], stdout=subprocess.PIPE, stderr=subprocess.PIPE, env=e,
                       timeout=timeout, input=stdin)
    return p.returncode, p.stdout.decode("utf-8", "replace"), p.stderr.decode("utf-8", "replace")


def sanitizer_site(err):
    m = re.search(r"ERROR: AddressSanitizer: ([a-zA-Z-]+)", err)
    if m:
        frames = [f for f in re.findall(r"#\d+ 0x[0-9a-f]+ in ([^\s(]+)", err) if "opensmt" in f][:2]
        return "asan-%s@%s" % (m.group(1), ">".join(frames))
    m = re.search(r"([A-Za-z_./]+):(\d+):\d+: runtime error: ([^\n]*)", err)
    if m:
        return "ubsan@%s:%s" % (os.path.basename(m.group(1)), re.sub(r"-?\d+", "N", m.group(3))[:70])
    return None


# --------------------------------------------------------------------------- C15

def c15_case(param):
    seed, nrandom, part, nparts = param
    res = CaseResult()
    rc, out, err = run_harness("asan", "h_rational", [seed, nrandom, part, nparts])
    done = False
    for line in out.split("\n"):
        if line.startswith("STAT "):
            _, op, n = line.split()
            res.evals += int(n)
            res.inc("op_" + op, int(n))
            res.dkeys.append("op:" + op)
        elif line.startswith("GRID "):
            res.inc("grid_values", int(line.split()[1]))
        elif line.startswith("MISMATCH "):
            f = [x.strip() for x in line[len("MISMATCH "):].split("|")]
            if len(f) < 5:
                continue
            op = f[0]
            res.viol.append(Violation("rational-mismatch", op, "FastRational %s on a=%s b=%s: %s, GMP: %s" % (op, f[1], f[2], f[3], f[4]),
                                      {"op": op, "a": f[1], "b": f[2], "prop": "C15", "seed": seed}))
        elif line.startswith("FATAL "):
            f = line.split(" ", 2)
            res.viol.append(Violation("fatal-signal", "sig%s:%s" % (f[1], f[2].split("|")[0].strip()), "fatal signal in " + line,
                                      {"line": line, "prop": "C15", "seed": seed}))
        elif line.startswith("DONE"):
            done = True
    site = sanitizer_site(err)
    if site:
        res.viol.append(Violation("sanitizer-report", site, err[-2500:], {"prop": "C15", "seed": seed, "stderr": err[-1500:]}))
    elif not done and not res.viol:
        res.error = "h_rational did not finish: rc=%s\n%s" % (rc, err[-800:])
    res.sample = {"seed": seed, "random_pairs": nrandom, "first_stats": out.split("\n")[:3]}
    return res


def c15_replay(w):
    r = c15_case((w.get("seed", 1), 3000, 0, 1))
    return [v for v in r.viol if v.cls == w.get("class_") or True]


def main(prop, tier):
    camp = Campaign(prop, tier)
    base = camp.seed
    if prop == "C15":
        nproc, nrandom = (16, 1500) if tier == "quick" else (16, 400000)
        camp.rule = ("FastRational vs GMP mpq/mpz on a boundary grid (~950 rationals with numerators/denominators at and around "
                     "0, +-1, 2^31, 2^32, 2^53, 2^63, 2^64, 10^30, primes near 2^16; each value constructed directly, through "
                     "arbitrary-precision arithmetic and back, and through multiplication) for + - * / += -= *= /= (incl. "
                     "self-aliasing and chains), negation, inverse, compare/relational, sign, floor, ceil, isInteger, num/den, "
                     "abs, cmpabs, gcd, lcm, fdiv_q, %, divexact, string round trip; plus value<->representation, canonical "
                     "form, == and hash of a freshly built equal value; ASan+UBSan build; distinct_nontrivial = operations "
                     "exercised, evaluations = operation results compared")
        camp.assumptions = ["GMP is the reference", "grid + random operands, not all pairs of rationals"]
        camp.run(c15_case, [(base * 100 + i, nrandom, i, nproc) for i in range(nproc)], chunksize=1)
        # violations are de-duplicated by (class, op): keep
        return camp.finish(replay_fn=None, min_evals=100000)
    return 2
