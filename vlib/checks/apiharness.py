"""Checks driven by C++ harnesses linked against libopensmt.a (asan flavour): C15 rationals, C16 numerals,
C14 term constructors, C27 integer rounding, C28 term identity, C22 theory-solver histories."""
import os
import re
import subprocess
import time

from .. import build, osmt
from ..core import Campaign, CaseResult, Violation, h

ENV = {"ASAN_OPTIONS": "abort_on_error=0:detect_leaks=0:allocator_may_return_null=1",
       "UBSAN_OPTIONS": "print_stacktrace=1:halt_on_error=1"}


def run_harness(flavour, name, args, timeout=1200, stdin=None):
    exe = build.harness_path(flavour, name)
    e = dict(os.environ)
    e.update(ENV)
    p = subprocess.run([exe] + [str(a) for a in args], stdout=subprocess.PIPE, stderr=subprocess.PIPE, env=e,
                       timeout=timeout, input=stdin)
    return p.returncode, p.stdout.decode("utf-8", "replace"), p.stderr.decode("utf-8", "replace")


def sanitizer_site(err):
    m = re.search(r"ERROR: AddressSanitizer: ([a-zA-Z-]+)", err)
    if m:
        frames = [f for f in re.findall(r"#\d+ 0x[0-9a-f]+ in ([^\s(]+)", err) if "opensmt" in f][:2]
        return "asan-%s@%s" % (m.group(1), ">".join(frames))
    m = re.search(r"([A-Za-z_./]+):(\d+):\d+: runtime error: ([^\n]*)", err)
    if m:
        return "ubsan@%s:%s" % (os.path.basename(m.group(1)), re.sub(r"-?\d+", "N", m.group(3))[:70])
    return None


# --------------------------------------------------------------------------- C15

def c15_case(param):
    seed, nrandom, part, nparts = param
    res = CaseResult()
    rc, out, err = run_harness("asan", "h_rational", [seed, nrandom, part, nparts])
    done = False
    for line in out.split("\n"):
        if line.startswith("STAT "):
            _, op, n = line.split()
            res.evals += int(n)
            res.inc("op_" + op, int(n))
            res.dkeys.append("op:" + op)
        elif line.startswith("GRID "):
            res.inc("grid_values", int(line.split()[1]))
        elif line.startswith("MISMATCH "):
            f = [x.strip() for x in line[len("MISMATCH "):].split("|")]
            if len(f) < 5:
                continue
            op = f[0]
            res.viol.append(Violation("rational-mismatch", op, "FastRational %s on a=%s b=%s: %s, GMP: %s" % (op, f[1], f[2], f[3], f[4]),
                                      {"op": op, "a": f[1], "b": f[2], "prop": "C15", "seed": seed}))
        elif line.startswith("FATAL "):
            f = line.split(" ", 2)
            res.viol.append(Violation("fatal-signal", "sig%s:%s" % (f[1], f[2].split("|")[0].strip()), "fatal signal in " + line,
                                      {"line": line, "prop": "C15", "seed": seed}))
        elif line.startswith("DONE"):
            done = True
    site = sanitizer_site(err)
    if site:
        res.viol.append(Violation("sanitizer-report", site, err[-2500:], {"prop": "C15", "seed": seed, "stderr": err[-1500:]}))
    elif not done and not res.viol:
        res.error = "h_rational did not finish: rc=%s\n%s" % (rc, err[-800:])
    res.sample = {"seed": seed, "random_pairs": nrandom, "first_stats": out.split("\n")[:3]}
    return res


def c15_replay(w):
    r = c15_case((w.get("seed", 1), 3000, 0, 1))
    return [v for v in r.viol if v.cls == w.get("class_") or True]


# --------------------------------------------------------------------------- C16

LIT_RE = re.compile(r"^(-?)((?:[0-9]+(?:\.[0-9]*)?|\.[0-9]+))(?:/((?:[0-9]+(?:\.[0-9]*)?|\.[0-9]+)))?$")


def exact_value(s):
    """Exact base-10 value of a (leniently) well-formed literal, or None if the string is not one."""
    from fractions import Fraction
    m = LIT_RE.match(s)
    if not m:
        return None

    def dec(t):
        if "." in t:
            a, b = t.split(".")
            return Fraction(int(a or "0")) + (Fraction(int(b), 10 ** len(b)) if b else 0)
        return Fraction(int(t))
    v = dec(m.group(2))
    if m.group(3) is not None:
        d = dec(m.group(3))
        if d == 0:
            return None
        v = v / d
    return -v if m.group(1) else v


def gen_literals(seed, tier):
    import itertools
    import random
    rng = random.Random(seed)
    alpha = "019./-"
    out = []
    maxlen = 4 if tier == "quick" else 6
    for n in range(1, maxlen + 1):
        for t in itertools.product(alpha, repeat=n):
            out.append("".join(t))
    out += ["007", "010/3", "0x10", "1e5", "1/0", "0/0", "1/00", "-0", "-0.0", "00.50", "1.50", "0.0101", "7.50203", "1.0203",
            "100.5", "12.340", "0.00123", "1/-2", "--1", "+1", " 1", "1 ", "1/2/3", "1..2", "12a", "a", "", "/", ".", "-."]
    for _ in range(300 if tier == "quick" else 20000):
        k = rng.choice([1, 5, 20, 80, 400])
        body = "".join(rng.choice("0123456789") for _ in range(k))
        form = rng.random()
        if form < 0.3:
            lit = body
        elif form < 0.6:
            lit = body + "." + "".join(rng.choice("0000123456789") for _ in range(rng.choice([1, 3, 12, 60])))
        elif form < 0.8:
            lit = body + "/" + "".join(rng.choice("0123456789") for _ in range(rng.choice([1, 3, 12, 40])))
        else:
            lit = "0" * rng.randint(1, 5) + body + "." + "0" * rng.randint(0, 4) + body[:rng.randint(1, 5)] + "0" * rng.randint(0, 3)
        if rng.random() < 0.3:
            lit = "-" + lit
        out.append(lit)
    return [x for x in dict.fromkeys(out) if x and "\n" not in x]


def c16_api_case(param):
    from fractions import Fraction
    from .. import outputs, sexpr
    logic, lits = param
    res = CaseResult()
    # a crash ends the harness process: restart it behind the crashing literal (line numbers are made absolute)
    out, err, start = "", "", 0
    for _ in range(40):
        rc, o, e = run_harness("asan", "h_numparse", [logic], stdin=("\n".join(lits[start:]) + "\n").encode())
        err += e
        crashed_at = None
        for line in o.split("\n"):
            f = line.split(" ", 3)
            if line.startswith("R ") or line.startswith("FATAL "):
                k = 1 if line.startswith("R ") else 2
                f = line.split(" ")
                f[k] = str(int(f[k]) + start)
                if line.startswith("FATAL "):
                    crashed_at = int(f[k])
                out += " ".join(f) + "\n"
            elif line.startswith("DONE"):
                out += line + "\n"
        if crashed_at is None:
            m = re.findall(r"^R (\d+) ", o, re.M)
            if "DONE" in o or not m:
                break
            crashed_at = int(m[-1]) + start + 1      # sanitizer abort without FATAL line: skip the next literal
            err_site = sanitizer_site(e)
            out += "FATAL 6 %d auto %s\n" % (crashed_at, lits[crashed_at - 1] if crashed_at <= len(lits) else "")
        start = crashed_at
        if start >= len(lits):
            out += "DONE\n"
            break
    res.inc("api_logic_" + logic)
    seen = set()

    def viol(cls, site, detail, lit):
        if (cls, site) in seen:
            return
        seen.add((cls, site))
        res.viol.append(Violation(cls, site, detail, {"literal": lit, "logic": logic, "prop": "C16", "kind": "api"}))
    for line in out.split("\n"):
        if line.startswith("FATAL "):
            f = line.split(" ", 4)
            lit = f[4] if len(f) > 4 else ""
            kind = "zero-denominator" if re.search(r"/0*(\.0*)?$", lit) else "other"
            viol("api-crash", "sig%s:%s:%s" % (f[1], f[3] if len(f) > 3 else "", kind), "fatal signal %s in mkConst(%s) [%s]" % (f[1], lit, logic), lit)
            continue
        if not line.startswith("R "):
            continue
        f = line.split(" ", 4)
        no, api, status = int(f[1]), f[2], f[3]
        lit = lits[no - 1]
        want = exact_value(lit)
        res.evals += 1
        if status == "exc" or status == "other":
            res.inc("rejected")
            continue
        val_s, printed, sort = [x.strip() for x in f[4].split(" | ")]
        got = Fraction(val_s)
        if want is None:
            shape = "no-digit" if not re.search(r"[0-9]", lit) else ("zero-denominator" if "/" in lit and exact_value(lit.split("/")[0]) is not None else "malformed")
            viol("malformed-literal-accepted", "%s:%s" % (api, shape), "mkConst[%s](%r) in %s is accepted as %s although it is not a well-formed literal" % (api, lit, logic, val_s), lit)
            continue
        if api == "int" and ("." in lit or "/" in lit):
            viol("malformed-literal-accepted", "int:not-integral-form", "mkConst(Int, %r) accepted as %s" % (lit, val_s), lit)
            continue
        if got != want:
            shape = "fraction-leading-zero" if "/" in lit and re.match(r"^-?0[0-9]", lit) else ("decimal" if "." in lit else "numeral")
            viol("literal-value-wrong", "%s:%s" % (api, shape), "mkConst[%s](%r) in %s denotes %s, exact value is %s" % (api, lit, logic, got, want), lit)
            continue
        try:
            pv = outputs.parse_number(sexpr.parse_one(printed))
        except Exception:
            pv = None
        if pv != want:
            viol("printed-value-wrong", api, "constant %r is printed as %s which denotes %s" % (lit, printed, pv), lit)
            continue
        res.inc("accepted_exact")
        res.dkeys.append(h(lit))
    if "DONE" not in out and not any(v.cls == "api-crash" for v in res.viol):
        res.error = "h_numparse did not finish: %s" % err[-500:]
    site = sanitizer_site(err)
    if site:
        viol("sanitizer-report", site, err[-2000:], "")
    res.sample = {"logic": logic, "literals": lits[:3] + lits[-3:]}
    return res


def c16_exe_case(param):
    """Literals through the executable: (assert (= x LIT)) (check-sat) (get-value (x))."""
    from fractions import Fraction
    from .. import outputs, sexpr
    sort, lits = param
    res = CaseResult()
    seen = set()
    logic = "QF_LRA" if sort == "Real" else "QF_LIA"
    for lit in lits:
        text = "(set-option :produce-models true)\n(set-logic %s)\n(declare-fun x () %s)\n(assert (= x %s))\n(check-sat)\n(get-value (x))\n" % (logic, sort, lit)
        run = osmt.run_opensmt(text, flavour="asan", cpu_s=10)
        if (run.timeout or not run.out.strip()) and not run.crashed():
            run = osmt.run_opensmt(text, flavour="asan", cpu_s=30)        # loaded machine: once more before giving up
        res.evals += 1
        want = exact_value(lit)
        if (run.timeout or not run.out.strip()) and not run.crashed():
            res.inconclusive += 1
            res.inc("exe_no_output")
            continue
        if run.crashed():
            res.viol.append(Violation("exe-crash", "literal", "crash on literal %s\n%s" % (lit, run.err[-800:]), {"literal": lit, "sort": sort, "prop": "C16", "kind": "exe"}))
            continue
        if "(error" in run.out or "yntax error" in run.out or "At line" in run.out:
            res.inc("exe_rejected")
            continue
        m = re.search(r"\(\(x (.*)\)\)\s*$", run.out.strip(), re.S)
        ans = run.out.split("\n")[0].strip()
        got = None
        if m:
            try:
                got = outputs.parse_number(sexpr.parse_one(m.group(1)))
            except Exception:
                got = None
        if want is None or ans != "sat" or got != want:
            shape = "leading-zero" if re.match(r"^-?0[0-9]", lit) else ("decimal" if "." in lit else "other")
            key = ("literal-silently-misread", shape)
            if key not in seen:
                seen.add(key)
                res.viol.append(Violation("literal-silently-misread", "%s:%s" % (sort, shape),
                                          "the executable accepts (= x %s) without any error but answers %s with x = %s (exact value %s)" % (lit, ans, got, want),
                                          {"literal": lit, "sort": sort, "prop": "C16", "kind": "exe"}))
            continue
        res.inc("exe_exact")
        res.dkeys.append(h("exe" + lit))
    res.sample = {"sort": sort, "literals": lits[:4]}
    return res


def c16_replay(w):
    if w.get("kind") == "exe":
        return c16_exe_case((w["sort"], [w["literal"]])).viol
    return c16_api_case((w["logic"], [w["literal"]])).viol


# --------------------------------------------------------------------------- C14 / C28

TERM_LOGICS = ["QF_UF", "QF_LRA", "QF_LIA", "QF_UFLIA", "QF_AUFLIRA", "QF_UFLRA", "QF_ALIA"]


def z3_batch(decls, pairs, timeout_ms=3000):
    """One z3 process decides all (intended, got) pairs: returns list of 'unsat'/'sat'/'unknown'."""
    lines = ["(set-option :timeout %d)" % timeout_ms] + decls
    for a, b in pairs:
        lines += ["(push 1)", "(assert (not (= %s %s)))" % (a, b), "(check-sat)", "(pop 1)"]
    d = osmt.scratch_dir("terms")
    import tempfile
    fd, path = tempfile.mkstemp(suffix=".smt2", dir=d)
    with os.fdopen(fd, "w") as f:
        f.write("\n".join(lines) + "\n")
    try:
        p = subprocess.run(["z3-new", path], stdout=subprocess.PIPE, stderr=subprocess.PIPE, timeout=900)
        out = [l.strip() for l in p.stdout.decode("utf-8", "replace").split("\n") if l.strip()]
    finally:
        os.remove(path)
    res = []
    for l in out:
        if l in ("sat", "unsat", "unknown"):
            res.append(l)
        elif l.startswith("(error"):
            res.append("error:" + l[:150])
    return res


def top_op(txt):
    m = re.match(r"\(([^\s()]+)", txt)
    return m.group(1) if m else txt[:10]


def c14_case(param):
    from .. import refs
    seed, n, logic = param
    res = CaseResult()
    rc, out, err = run_harness("rel", "h_terms", [seed, n, logic])
    decls, pairs, exc = [], [], []
    for line in out.split("\n"):
        if line.startswith("DECL "):
            decls.append(line[5:])
        elif line.startswith("P "):
            f = line[2:].split(" | ")
            if len(f) == 3:
                pairs.append((f[1], f[2], f[0]))
        elif line.startswith("X "):
            f = line[2:].split(" | ")
            exc.append((f[0], f[1] if len(f) > 1 else ""))
    if "DONE" not in out:
        res.error = "h_terms did not finish (rc=%s): %s" % (rc, err[-500:])
        return res
    res.inc("logic_" + logic)
    verdicts = z3_batch(decls, [(a, b) for a, b, _ in pairs])
    if len(verdicts) != len(pairs):
        res.error = "z3 batch returned %d verdicts for %d pairs: %s" % (len(verdicts), len(pairs), verdicts[:3])
        return res
    seen = set()
    for (a, b, srt), v in zip(pairs, verdicts):
        res.evals += 1
        op = top_op(a)
        if v == "unsat":
            res.inc("equivalent_" + op)
            if a != b:
                res.dkeys.append(h(a))
        elif v == "sat":
            text = "(set-logic ALL)\n" + "\n".join(decls) + "\n(assert (not (= %s %s)))\n(check-sat)\n" % (a, b)
            c = refs.cvc5(text)
            if c == "sat":
                if op not in seen:
                    seen.add(op)
                    res.viol.append(Violation("constructor-not-equivalent", "%s:%s" % (op, srt),
                                              "constructor result is not equivalent to its arguments' meaning (z3 and cvc5 find a counter-model)\n"
                                              "intended: %s\nreturned: %s" % (a, b),
                                              {"intended": a, "returned": b, "decls": decls, "logic": logic, "seed": seed, "prop": "C14"}))
            else:
                res.inconclusive += 1
        else:
            res.inconclusive += 1
            res.inc("ref_" + v.split(":")[0])
    for a, msg in exc:
        res.evals += 1
        op = top_op(a)
        res.viol.append(Violation("constructor-exception", "%s:%s" % (op, re.sub(r"[^A-Za-z]+", "-", msg)[:30]),
                                  "constructor threw on a defined, linear, well-sorted application: %s\n%s" % (msg, a),
                                  {"intended": a, "logic": logic, "seed": seed, "prop": "C14"}))
    res.sample = {"logic": logic, "seed": seed, "pair": list(pairs[len(pairs) // 2][:2]) if pairs else None}
    return res



# --------------------------------------------------------------------------- C27

def c27_harness_case(param):
    from .. import refs
    seed, n = param
    res = CaseResult()
    rc, out, err = run_harness("asan", "h_intround", [seed, n])
    site = sanitizer_site(err)
    if site:
        res.viol.append(Violation("sanitizer-report", site, "sanitizer report in h_intround %s %s:\n%s" % (seed, n, err[-1500:]),
                                  {"seed": seed, "n": n, "prop": "C27", "part": "harness"}))
        return res
    if "DONE" not in out:
        res.error = "h_intround did not finish (rc=%s): %s" % (rc, err[-500:])
        return res
    decls, pairs, seenm = [], [], set()
    for line in out.split("\n"):
        if line.startswith("DECL "):
            decls.append(line[5:])
        elif line.startswith("P "):
            f = line[2:].split(" | ")
            if len(f) == 3:
                pairs.append((f[1], f[2], f[0]))
        elif line.startswith("STAT "):
            _, k, v = line.split()
            res.inc(k, int(v))
            if k.startswith("const_"):
                res.evals += int(v)
                res.dkeys.append("const:" + k)
        elif line.startswith("M "):
            f = [x.strip() for x in line[2:].split("|")]
            if f[0] not in seenm:
                seenm.add(f[0])
                res.viol.append(Violation("constant-%s-wrong" % f[0], "neg-divisor" if f[2].startswith("-") else "pos-divisor",
                                          "mk%s on constants %s and %s: %s, Euclidean definition (GMP): %s" % (
                                              "IntDiv" if f[0] == "div" else "Mod", f[1], f[2], f[3], f[4]),
                                          {"seed": seed, "n": n, "prop": "C27", "part": "harness"}))
        elif line.startswith("X "):
            f = line[2:].split(" | ")
            res.viol.append(Violation("constructor-exception", top_op(f[0]), "constructor threw on integer input: %s" % line[2:300],
                                      {"seed": seed, "n": n, "prop": "C27", "part": "harness"}))
    verdicts = z3_batch(decls, [(a, b) for a, b, _ in pairs])
    if len(verdicts) != len(pairs):
        res.error = "z3 batch returned %d verdicts for %d pairs: %s" % (len(verdicts), len(pairs), verdicts[:3])
        return res
    seen = set()
    for (a, b, srt), v in zip(pairs, verdicts):
        res.evals += 1
        op = top_op(a)
        if v == "unsat":
            res.inc("equivalent_" + op)
            if a != b:
                res.dkeys.append(h(a))
        elif v == "sat":
            text = "(set-logic ALL)\n" + "\n".join(decls) + "\n(assert (not (= %s %s)))\n(check-sat)\n" % (a, b)
            if refs.cvc5(text) == "sat":
                if op not in seen:
                    seen.add(op)
                    res.viol.append(Violation("integer-atom-not-equivalent", op,
                                              "integer normalisation changed the meaning (z3 and cvc5 find a counter-model)\n"
                                              "intended: %s\nreturned: %s" % (a, b),
                                              {"intended": a, "returned": b, "decls": decls, "seed": seed, "n": n, "prop": "C27", "part": "harness"}))
            else:
                res.inconclusive += 1
        else:
            res.inconclusive += 1
    return res


C27_BIG = [2**31 - 1, 2**31, 2**32, 2**32 + 1, 2**53 + 1, 2**63 - 1, 2**63, 2**64, 10**30 + 7, 46341, 3037000500]


def c27_window(rng):
    """Integer window  lo (<|<=) a*x [+ b*y] (<|<=) hi  with its exact verdict (python integers)."""
    a = rng.choice([1, 2, 3, 4, 5, 6, 7, 10, 12, -1, -2, -3, -5, -7] + ([rng.choice(C27_BIG)] if rng.random() < 0.15 else []))
    if rng.random() < 0.5:
        a = -a if rng.random() < 0.3 else a
    centre = rng.choice([0, 1, -1, 5, -5, 17, -23, 100] + [s * v for v in C27_BIG for s in (1, -1)])
    centre += rng.randint(-3, 3)
    width = rng.choice([0, 1, 1, 2, 2, 3, abs(a) - 1, abs(a), abs(a) + 1])
    lo, hi = centre, centre + max(width, 0)
    sl, sh = rng.random() < 0.5, rng.random() < 0.5
    ilo = lo + 1 if sl else lo
    ihi = hi - 1 if sh else hi
    # exists integer x with ilo <= a*x <= ihi  (for a < 0: -ihi <= (-a)*x <= -ilo);  ceil(n/b) = -((-n)//b)
    if a > 0:
        xlo, xhi = -((-ilo) // a), ihi // a
    else:
        b = -a
        xlo, xhi = -(ihi // b), (-ilo) // b
    sat = xlo <= xhi
    return a, lo, hi, sl, sh, sat


def c27_num(v):
    return str(v) if v >= 0 else "(- %d)" % -v


def c27_script_case(param):
    import random
    seed, n = param
    rng = random.Random(seed)
    res = CaseResult()
    for it in range(n):
        a, lo, hi, sl, sh, sat = c27_window(rng)
        form = rng.choice(["lia", "lia", "lia-neg", "idl"]) if abs(a) == 1 else rng.choice(["lia", "lia-neg", "lia-split"])
        logic = "QF_IDL" if form == "idl" else rng.choice(["QF_LIA", "QF_LIA", "QF_UFLIA", "QF_ALIA"])
        if form == "idl":
            t = "(- x y)" if a == 1 else "(- y x)"
        elif form == "lia-split" and abs(a) > 1:
            k = rng.randint(1, abs(a) - 1) * (1 if a > 0 else -1)
            t = "(+ (* %s x) (* %s x))" % (c27_num(k), c27_num(a - k))
        else:
            t = "(* %s x)" % c27_num(a) if a != 1 else "x"
        lower = "(%s %s %s)" % ("<" if sl else "<=", c27_num(lo), t)
        upper = "(%s %s %s)" % ("<" if sh else "<=", t, c27_num(hi))
        if form == "lia-neg":
            lower = "(not (%s %s %s))" % (">=" if sl else ">", c27_num(lo), t)
            upper = "(not (%s %s %s))" % (">=" if sh else ">", t, c27_num(hi))
        txt = "(set-option :produce-models true)\n(set-logic %s)\n(declare-fun x () Int)\n(declare-fun y () Int)\n(assert %s)\n(assert %s)\n(check-sat)\n" % (logic, lower, upper)
        if sat:
            txt += "(get-value (x y))\n"
        run = osmt.run_opensmt(txt, flavour="asan", cpu_s=20)
        res.evals += 1
        first = run.out.strip().split("\n")[0] if run.out.strip() else ""
        w = {"script": txt, "expected": "sat" if sat else "unsat", "prop": "C27", "part": "script"}
        site = sanitizer_site(run.err)
        if site:
            res.viol.append(Violation("sanitizer-report", site, "sanitizer report on\n%s\n%s" % (txt, run.err[-1200:]), w))
            continue
        if run.timeout:
            res.inconclusive += 1
            continue
        if first not in ("sat", "unsat"):
            if first == "unknown":
                res.inc("unknown_" + form)        # giving up (constants beyond the difference-logic range) is not a wrong value
                continue
            if "(error" in run.out:
                res.inc("refused_" + form)        # e.g. constants beyond the difference-logic range: allowed, not a wrong value
                continue
            res.viol.append(Violation("no-answer", form, "no answer on\n%s\n%s" % (txt, (run.out + run.err)[-400:]), w))
            continue
        big = "big" if max(abs(lo), abs(hi), abs(a)) >= 2**31 else "small"
        if first != w["expected"]:
            res.viol.append(Violation("integer-window-wrong-%s" % first, "%s:%s" % (form, big),
                                      "exact arithmetic says %s (window %s%s, %s%s for %d*x)\n%s" % (
                                          w["expected"], "(" if sl else "[", lo, hi, ")" if sh else "]", a, txt), w))
            continue
        if sat:
            m = re.search(r"\(x\s+(\(-\s+\d+\)|\d+)\)\s*\(y\s+(\(-\s+\d+\)|\d+)\)", run.out)
            if not m:
                res.viol.append(Violation("value-malformed", form, "get-value output not integers: %s\n%s" % (run.out[:300], txt), w))
                continue
            val = lambda g: -int(re.sub(r"\D", "", g)) if g.startswith("(") else int(g)
            x, y = val(m.group(1)), val(m.group(2))
            v = (x - y) if (form == "idl" and a == 1) else ((y - x) if form == "idl" else a * x)
            okl = lo < v if sl else lo <= v
            okh = v < hi if sh else v <= hi
            if not (okl and okh):
                res.viol.append(Violation("integer-model-outside-window", "%s:%s" % (form, big),
                                          "x=%d y=%d gives %d outside the window\n%s" % (x, y, v, txt), w))
                continue
        res.inc("windows_%s_%s" % (form, "sat" if sat else "unsat"))
        res.dkeys.append(h(txt))
    return res


def c27_replay(w):
    if w.get("part") == "script":
        import random
        txt = w["script"]
        run = osmt.run_opensmt(txt, flavour="asan", cpu_s=20)
        first = run.out.strip().split("\n")[0] if run.out.strip() else ""
        if sanitizer_site(run.err):
            return [Violation("sanitizer-report", sanitizer_site(run.err), "replayed", w)]
        if first in ("sat", "unsat") and first != w["expected"]:
            return [Violation("integer-window-wrong-%s" % first, "replay", "replayed: expected %s" % w["expected"], w)]
        return []
    return c27_harness_case((w["seed"], w["n"])).viol


def c28_case(param):
    seed, n, logic = param
    res = CaseResult()
    rc, out, err = run_harness("rel", "h_terms", [seed, n, logic])
    if "DONE" not in out:
        res.error = "h_terms did not finish (rc=%s): %s" % (rc, err[-500:])
        return res
    res.inc("logic_" + logic)
    for line in out.split("\n"):
        if line.startswith("STAT "):
            _, k, v = line.split()
            if k in ("rebuilds", "permutations", "audited_terms"):
                res.evals += int(v)
                res.inc(k, int(v))
            if k.startswith("op_"):
                res.dkeys.append("%s:%s" % (logic, k))
        elif line.startswith("V28 "):
            kind, detail = line[4:].split(" | ", 1)
            res.viol.append(Violation("term-identity:" + kind, top_op(detail), detail[:1500],
                                      {"logic": logic, "seed": seed, "n": n, "prop": "C28"}))
    res.sample = {"logic": logic, "seed": seed, "constructions": n}
    return res


def c28_replay(w):
    return c28_case((w["seed"], w["n"], w["logic"])).viol


def main(prop, tier):
    camp = Campaign(prop, tier)
    base = camp.seed
    if prop == "C15":
        nproc, nrandom = (16, 1500) if tier == "quick" else (16, 400000)
        camp.rule = ("FastRational vs GMP mpq/mpz on a boundary grid (~950 rationals with numerators/denominators at and around "
                     "0, +-1, 2^31, 2^32, 2^53, 2^63, 2^64, 10^30, primes near 2^16; each value constructed directly, through "
                     "arbitrary-precision arithmetic and back, and through multiplication) for + - * / += -= *= /= (incl. "
                     "self-aliasing and chains), negation, inverse, compare/relational, sign, floor, ceil, isInteger, num/den, "
                     "abs, cmpabs, gcd, lcm, fdiv_q, %, divexact, string round trip; plus value<->representation, canonical "
                     "form, == and hash of a freshly built equal value; ASan+UBSan build; distinct_nontrivial = operations "
                     "exercised, evaluations = operation results compared")
        camp.assumptions = ["GMP is the reference", "grid + random operands, not all pairs of rationals"]
        camp.run(c15_case, [(base * 100 + i, nrandom, i, nproc) for i in range(nproc)], chunksize=1)
        # violations are de-duplicated by (class, op): keep
        return camp.finish(replay_fn=None, min_evals=100000)
    if prop == "C16":
        import random
        lits = gen_literals(base, tier)
        camp.rule = ("(a) API: every string of length <= %d over {0,1,9,.,/,-} plus curated and long random literals (up to 400 digits, "
                     "leading/trailing zeros) through ArithLogic::mkConst(name), mkConst(Int,name), mkConst(Real,name) in QF_LRA, QF_LIA, "
                     "QF_AUFLIRA: an accepted string must be a well-formed literal (own lenient grammar), denote its exact base-10 value "
                     "(python Fractions) and print back to it; no crash; (b) executable: (= x LIT) / check-sat / get-value for well-formed "
                     "literals and leading-zero variants: no error means sat with exactly that value; distinct_nontrivial = distinct "
                     "literals read and printed exactly" % (4 if tier == "quick" else 6))
        camp.assumptions = ["own literal grammar + exact rational arithmetic as oracle"]
        chunks = [lits[i::5] for i in range(5)]
        params = [(lg, ch) for lg in ("QF_LRA", "QF_LIA", "QF_AUFLIRA") for ch in chunks]
        camp.run(c16_api_case, params, chunksize=1)
        rng = random.Random(base)
        wf = [l for l in lits if exact_value(l) is not None and not l.startswith(".") and not l.endswith(".") and "/." not in l]
        rng.shuffle(wf)
        nexe = 400 if tier == "quick" else 20000
        ints = [l for l in wf if re.match(r"^[0-9]+$", l)][:nexe // 2]
        reals = [l for l in wf if not l.startswith("-")][:nexe // 2]
        camp.run(c16_exe_case, [("Int", ints[i::8]) for i in range(8)] + [("Real", reals[i::8]) for i in range(8)], chunksize=1)
        return camp.finish(replay_fn=c16_replay, min_evals=2000)
    if prop == "C14":
        per, n = (6, 4000) if tier == "quick" else (60, 20000)
        camp.rule = ("h_terms builds random well-sorted argument tuples bottom-up through mkAnd/mkOr/mkNot/mkImpl/mkXor/mkIte/"
                     "mkEq/mkDistinct/mkPlus/mkMinus/mkNeg/mkTimes/mkRealDiv/mkIntDiv/mkMod/mkLeq/mkLt/mkGeq/mkGt/mkSelect/"
                     "mkStore/UF application (boundary constants, repeated and complementary arguments, depth grows with the pool); "
                     "for every call (not (= <op applied to the intended meaning of the arguments> <printed result>)) must be "
                     "unsat in z3, a counter-model must be confirmed by cvc5; an exception on a linear defined application is a "
                     "violation; distinct_nontrivial = distinct calls whose result differs syntactically from the input")
        camp.assumptions = ["z3 5.1 (+cvc5 for counter-models)", "results printed with the solver's printer (C17)"]
        params = [(base * 1000 + i * 17 + k, n, lg) for i, lg in enumerate(TERM_LOGICS) for k in range(per)]
        camp.run(c14_case, params, chunksize=1)
        return camp.finish(replay_fn=None, min_evals=5000)
    if prop == "C27":
        nh, n, ns, per = (8, 1500, 16, 60) if tier == "quick" else (64, 20000, 64, 2500)
        camp.rule = ("(a) h_intround (ASan+UBSan): mkIntDiv/mkMod on constant pairs - exhaustive on [-40,40]^2, boundary grid "
                     "(+-2^31, 2^32, 2^53, 2^63, 2^64, 10^30 and neighbours) against both orders, random operands up to 29 digits - must "
                     "equal the Euclidean quotient/remainder computed with GMP; (b) integer atoms (<=,<,>=,>,=) over 1-3 variables with "
                     "coefficients [-6,6] + boundary coefficients and constants, and div/mod of such sums by constants: the printed result "
                     "must be equivalent to the intended atom (z3, counter-models confirmed by cvc5); (c) executable (asan): integer windows "
                     "lo </<= a*x </<= hi (also negated form, split coefficient, difference-logic form in QF_IDL) with widths around |a| and "
                     "centres on the boundary grid: answer must equal the exact verdict computed with python integers and the value of x "
                     "must lie in the window; distinct_nontrivial = distinct windows / non-trivial atoms validated")
        camp.assumptions = ["GMP / python integers as the oracle for (a) and (c); z3 5.1 (+cvc5) for (b)", "grid + random sample, not all integers"]
        camp.run(c27_harness_case, [(base * 1000 + i, n) for i in range(nh)], chunksize=1)
        camp.run(c27_script_case, [(base * 7919 + i, per) for i in range(ns)], chunksize=1)
        return camp.finish(replay_fn=c27_replay, min_evals=5000)
    if prop == "C28":
        per, n = (3, 12000) if tier == "quick" else (40, 60000)
        camp.rule = ("h_terms: every constructor call is repeated and must return the same identity; and/or/+/* are re-called "
                     "with reversed arguments (when the result symbol is marked commutative) and must return the same identity; at "
                     "the end the whole term table is audited: no two identities with equal (symbol, children), every child "
                     "older than its parent, ids increasing; evaluations = rebuilds + permutations + audited terms")
        camp.assumptions = ["order-insensitivity is only demanded of and/or/+/* (constructors that sort their arguments)"]
        params = [(base * 1000 + i * 19 + k, n, lg) for i, lg in enumerate(TERM_LOGICS) for k in range(per)]
        camp.run(c28_case, params, chunksize=1)
        return camp.finish(replay_fn=c28_replay, min_evals=5000)
    return 2
