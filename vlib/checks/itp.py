"""C08 (Craig interpolants for the requested split) and C09 (sequence interpolants)."""
import random

from .. import gen, refs, configs, scriptrun as sr, outputs, sexpr
from ..core import Campaign, CaseResult, Violation, h
from ..terms import to_smt, T, strip_named, names_in, free_symbols
from .models import errkind

N_QUICK = {"C08": 300, "C09": 200}
N_THOROUGH = {"C08": 14000, "C09": 8000}


def itp_options(rng, logic):
    o = [(":produce-interpolants", "true")]
    if rng.random() < 0.7:
        o.append((":interpolation-bool-algorithm", str(rng.choice([0, 1, 2, 3, 4, 5]))))
    if logic == "QF_UF" and rng.random() < 0.7:
        o.append((":interpolation-euf-algorithm", str(rng.choice([0, 2, 3]))))
    if logic in ("QF_LRA", "QF_LIA") and rng.random() < 0.7:
        alg = rng.choice([0, 2, 3, 4, 5])
        o.append((":interpolation-lra-algorithm", str(alg)))
        if alg == 3:
            o.append((":interpolation-lra-factor", '"%s"' % rng.choice(["1/2", "1/3", "2/3", "1/10"])))
    if rng.random() < 0.25:
        o.append((":proof-reduce", "1"))
    if rng.random() < 0.3:
        o.append((":simplify-interpolants", str(rng.choice([1, 2, 3, 4]))))
    o += configs.sat_tuning(rng)
    seen = set()
    return [x for x in o if not (x[0] in seen or seen.add(x[0]))]


def build(seed, prop):
    rng = random.Random(seed * 43 + 19)
    logic = gen.ITP_LOGICS[seed % len(gen.ITP_LOGICS)]
    g = gen.ScriptGen(seed, logic=logic, opts={"boundary": 0.02, "max_const": 2, "reuse_names": 0.5, "divmod": 0.0,
                                               "ite": 0.08})
    options = itp_options(rng, gen.LOGICS[logic]["name"])
    kmin = 2 if prop == "C08" else 3

    def qf(r, names):
        out = []
        if len(names) < kmin:
            return out
        for _ in range(r.choice([1, 2, 3])):
            ns = list(names)
            r.shuffle(ns)
            k = 2 if prop == "C08" else r.randint(3, min(5, len(ns)))
            cuts = sorted(r.sample(range(1, len(ns)), k - 1))
            groups = [ns[a:b] for a, b in zip([0] + cuts, cuts + [len(ns)])]
            out.append({"k": "get-interpolants", "groups": groups, "force_and": r.random() < 0.2})
        return out

    hist = g.history(rng.randint(8, 22), p={"assert_": 0.55, "check": 0.2, "push": 0.1, "pop": 0.08, "reassert": 0.25,
                                            "define": 0.03},
                     query_fn=qf, name_p=0.9)
    out = []
    asserted = []
    for c in hist:
        out.append(c)
        if c["k"] == "assert":
            asserted.append(strip_named(c["term"]))
            if rng.random() < 0.3:
                t = rng.choice(asserted)
                neg = T("!", (T("not", (t,)),), "Bool", g.tg.fresh_name())
                out.append({"k": "assert", "term": neg})
    # a level that is pushed, given an assertion and popped again without ever being checked; its formula later occurs as a
    # sub-term of other assertions.  The popped assertion must leave no partition information behind.
    if rng.random() < 0.3:
        ghost = strip_named(g.assertion(depth=rng.choice([0, 0, 1]))["term"])
        pre = [{"k": "push", "n": 1}, {"k": "assert", "term": T("!", (ghost,), "Bool", g.tg.fresh_name())}, {"k": "pop", "n": 1}]
        out2 = []
        for c in out:
            if c["k"] == "assert" and rng.random() < 0.3:
                t = c["term"]
                if t.op == "!":
                    c = {"k": "assert", "term": T("!", (T(rng.choice(["and", "or"]), (t.args[0], ghost), "Bool"),), "Bool", t.val)}
                else:
                    c = {"k": "assert", "term": T("and", (ghost, t), "Bool")}
            out2.append(c)
        pos = rng.randint(0, min(3, len(out2)))
        out = out2[:pos] + pre + out2[pos:]
    out = gen.dedup_asserts(out, rng)
    # "a popped assertion leaves no trace" template: an atom over x is asserted in a level that is popped without a check;
    # afterwards the atom occurs only inside A together with the A-local x, B contradicts A through the shared y
    if rng.random() < 0.35:
        from ..terms import mkvar, mknum
        lname = gen.LOGICS[logic]["name"]
        tpl = None
        na, nb, nz = g.tg.fresh_name(), g.tg.fresh_name(), g.tg.fresh_name()
        if lname in ("QF_LRA", "QF_LIA"):
            srt = "Real" if lname == "QF_LRA" else "Int"
            vs = g.sig.consts.get(srt, [])
            if len(vs) >= 2:
                x, y = [mkvar(n, srt) for n in rng.sample(vs, 2)]
                c = rng.randint(-3, 3)
                atom = T("<=", (x, mknum(c, srt)), "Bool")
                a_t = T("and", (T("<=", (y, x), "Bool"), atom), "Bool")
                b_t = T(">=", (y, mknum(c + rng.randint(1, 3), srt)), "Bool")
                tpl = (atom, a_t, b_t)
        elif g.sig.sorts:
            srt = g.sig.sorts[0]
            vs = g.sig.consts.get(srt, [])
            preds = [f for f in g.sig.funs if f[2] == "Bool" and f[1] == (srt,)]
            if len(vs) >= 2 and preds:
                x, y = [mkvar(n, srt) for n in rng.sample(vs, 2)]
                pn = preds[0][0]
                atom = T(pn, (x,), "Bool")
                a_t = T("and", (atom, T("=", (x, y), "Bool")), "Bool")
                b_t = T("not", (T(pn, (y,), "Bool"),), "Bool")
                tpl = (atom, a_t, b_t)
        if tpl:
            atom, a_t, b_t = tpl
            # in a level of its own at the start of the script, so that nothing else is on the stack
            out = [{"k": "push", "n": 1},
                   {"k": "push", "n": 1}, {"k": "assert", "term": T("!", (atom,), "Bool", nz)}, {"k": "pop", "n": 1},
                   {"k": "assert", "term": T("!", (a_t,), "Bool", na)}, {"k": "assert", "term": T("!", (b_t,), "Bool", nb)},
                   {"k": "check-sat"}, {"k": "get-interpolants", "groups": [[na], [nb]], "force_and": False},
                   {"k": "pop", "n": 1}] + out
    return g.header(options) + out


def expand_symbols(t, defs):
    """Uninterpreted user symbols of t with defined functions expanded."""
    syms = set()
    todo = [t]
    seen_defs = set()
    while todo:
        x = todo.pop()
        for s in free_symbols(x):
            if s in defs:
                if s not in seen_defs:
                    seen_defs.add(s)
                    d = defs[s]
                    body_syms = free_symbols(d["body"], frozenset(n for n, _ in d["params"]))
                    for b in body_syms:
                        if b in defs:
                            todo.append(T(b, (), "Bool"))
                        else:
                            syms.add(b)
            else:
                syms.add(s)
    return syms


def problem(cmds, m, terms, printed_lines):
    lines = ["(set-logic ALL)"]
    lines += [gen.cmd_text(c, "ref") for c in sr.decls_of(cmds)]
    lines += [gen.cmd_text(c, "ref") for c in m.defs().values()]
    lines += ["(assert %s)" % to_smt(t, "ref") for t in terms]
    lines += printed_lines
    lines.append("(check-sat)")
    return "\n".join(lines) + "\n"


def decide(text):
    q = refs.quick(text)
    if q not in ("sat", "unsat"):
        return "inconclusive"
    return refs.consensus(text, first=q)


def judge(cmds, prop, res=None):
    run, resp, last = sr.execute(cmds, cpu_s=4)
    st = sr.option_state(cmds)
    bad = []
    state = None
    for i, c, r, m in sr.walk(cmds, resp, last):
        k = c["k"]
        if k in ("assert", "push", "pop", "define-fun"):
            state = None
        elif k == "check-sat":
            state = sr.answer_of(r)
        elif k == "get-interpolants" and state == "unsat":
            if not configs.has(st["options"], ":produce-interpolants"):
                continue
            groups = c["groups"]
            names = m.names()
            cur = m.assertions()
            top = {}
            for a in cur:
                if a.op == "!":
                    top.setdefault(a.val, a)
            if not all(n in top for g_ in groups for n in g_):
                continue        # request mentions a name that is not a current assertion: not covered by C08
            if res is not None:
                res.evals += 1
            if sr.is_error(r):
                bad.append((i, "itp-rejected:" + errkind(r), "valid request %s answered %s" % (gen.cmd_text(c), r[:200]), ""))
                continue
            try:
                itps = outputs.parse_interpolants(r)
            except outputs.OutputError as e:
                bad.append((i, "malformed-interpolants", "%s\n%s" % (e, r[:300]), ""))
                continue
            if len(itps) != len(groups) - 1:
                bad.append((i, "itp-count", "%d interpolants for %d groups: %s" % (len(itps), len(groups), r[:300]), ""))
                continue
            defs = m.defs()
            declared = {d["name"] for d in sr.decls_of(cmds) if d["k"] == "declare-fun"}
            prev_txt = "true"
            okall = True
            for j, itp in enumerate(itps):
                a_names = [n for g_ in groups[:j + 1] for n in g_]
                a_terms = [top[n] for n in a_names]
                a_ids = {id(t) for t in a_terms}
                b_terms = [t for t in cur if id(t) not in a_ids]
                ctx = outputs.RefCtx()
                itxt = outputs.term_to_ref(itp, ctx)
                if ctx.abstract or ctx.internal:
                    bad.append((i, "itp-internal-symbol", "interpolant mentions solver-internal symbols: %s" % sexpr.dump(itp)[:300], ""))
                    okall = False
                    break
                v1 = decide(problem(cmds, m, a_terms, ["(assert (not %s))" % itxt]))
                if v1 == "sat":
                    bad.append((i, "itp-not-implied-by-A", "A=%s does not imply I=%s" % (a_names, sexpr.dump(itp)[:400]), ""))
                    okall = False
                    break
                v2 = decide(problem(cmds, m, b_terms, ["(assert %s)" % itxt]))
                if v2 == "sat":
                    # symptom of the known "constant assertion in A" finding: some single assertion of A is unsatisfiable or valid by itself
                    falsea = any(decide(problem(cmds, m, [t], [])) == "unsat" or
                                 decide(problem(cmds, m, [T("not", (strip_named(t),), "Bool")], [])) == "unsat" for t in a_terms[:12])
                    bad.append((i, "itp-consistent-with-B", "I=%s is satisfiable together with B (all current assertions except %s)" % (
                        sexpr.dump(itp)[:400], a_names), "a-has-constant-assertion" if falsea else "a-no-constant-assertion"))
                    okall = False
                    break
                isyms = {s for s in outputs.symbols_of(itp) if s in declared}
                asyms = set().union(*[expand_symbols(t, defs) for t in a_terms]) if a_terms else set()
                bsyms = set().union(*[expand_symbols(t, defs) for t in b_terms]) if b_terms else set()
                extra = isyms - (asyms & bsyms)
                if extra:
                    loc = "A-local" if extra & asyms else ("B-local" if extra & bsyms else "foreign")
                    bad.append((i, "itp-symbol-not-shared", "I=%s mentions %s (%s) not shared by A=%s and B" % (
                        sexpr.dump(itp)[:400], sorted(extra), loc, a_names), loc))
                    okall = False
                    break
                if prop == "C09" and j > 0:
                    g_terms = [top[n] for n in groups[j]]
                    v3 = decide(problem(cmds, m, g_terms, ["(assert %s)" % prev_txt, "(assert (not %s))" % itxt]))
                    if v3 == "sat":
                        bad.append((i, "path-property", "I%d and group %s do not imply I%d" % (j, groups[j], j + 1), ""))
                        okall = False
                        break
                    if v3 == "inconclusive" and res is not None:
                        res.inconclusive += 1
                if "inconclusive" in (v1, v2):
                    okall = False
                    if res is not None:
                        res.inconclusive += 1
                prev_txt = itxt
            if okall and res is not None:
                res.inc("interpolants_validated", len(itps))
                res.inc("requests_k%d" % len(groups))
    return bad, run


def site_for(cls, cmds, symptom="", upto=None):
    from .cores import dup_symptom
    parts = [dup_symptom(cmds, upto)]
    if any(c["k"] == "pop" for c in cmds):
        parts.append("pop")
    if symptom:
        parts.append(symptom)
    return ":".join(parts)


def case(param):
    seed, prop = param
    res = CaseResult()
    cmds = build(seed, prop)
    bad, run = judge(cmds, prop, res)
    res.inc("logic_" + sr.logic_of(cmds))
    for n, v in sr.option_state(cmds)["options"]:
        if n.startswith(":interpolation") or n in (":proof-reduce", ":simplify-interpolants"):
            res.inc("opt_%s=%s" % (n.lstrip(":"), v.strip('"')))
    if run.timeout:
        res.inc("timeout")
    if run.crashed():
        res.inc("crash_seen_(C18)")
    if res.feat.get("interpolants_validated"):
        res.dkeys.append(h(gen.render(cmds, markers=False)))
    if seed % 43 == 0:
        res.sample = {"script": gen.render(cmds, markers=False)[:1800], "stdout": run.out[:500]}
    seen = set()
    for b in bad:
        cls = b[1]
        if prop == "C08" and cls == "path-property":
            continue
        if cls in seen:
            continue
        seen.add(cls)

        from ..core import is_known
        if is_known(prop, cls, site_for(cls, cmds, b[3], b[0])):
            res.viol.append(Violation(cls, site_for(cls, cmds, b[3], b[0]), "%s (command #%d, not minimised: matches a known finding)\n%s" % (
                cls, b[0], b[2][:600]), sr.witness(cmds, prop=prop)))
            continue

        def pred(cand, cls=cls):
            bb, _ = judge(cand, prop)
            return any(x[1] == cls for x in bb)
        small = sr.shrink(cmds, pred, budget=70)
        bb, _ = judge(small, prop)
        bb = [x for x in bb if x[1] == cls]
        if not bb:
            small, bb = cmds, [b]
        res.viol.append(Violation(cls, site_for(cls, small, bb[0][3], bb[0][0]), "%s (command #%d)\n%s\n--- script ---\n%s" % (
            cls, bb[0][0], bb[0][2][:1200], gen.render(small, markers=False)), sr.witness(small, prop=prop)))
    return res


def replay(prop):
    def f(w):
        cmds = sr.cmds_from_witness(w)
        bad, _ = judge(cmds, prop)
        out, seen = [], set()
        for b in bad:
            if b[1] not in seen:
                seen.add(b[1])
                out.append(Violation(b[1], site_for(b[1], cmds, b[3], b[0]), "replayed: " + b[2][:300], w))
        return out
    return f


def main(prop, tier):
    camp = Campaign(prop, tier)
    n = N_QUICK[prop] if tier == "quick" else N_THOROUGH[prop]
    n = int(__import__("os").environ.get("VERIF_CASES", n))     # experiments only
    base = camp.seed * 1000003 + (8000 if prop == "C08" else 9000)
    if prop == "C08":
        camp.rule = ("unsat-biased push/pop histories in propositional QF_UF, QF_UF, QF_LRA, QF_LIA with named assertions, "
                     "random A/B bipartitions (names or (and names)), every interpolation algorithm/factor/reduction/"
                     "simplification option; a valid request must not be rejected; A => I and I & B unsat for B = all other "
                     "current assertions (z3 + cvc5) and uninterpreted symbols of I within those shared by A and B; "
                     "distinct_nontrivial = scripts with >=1 fully validated response")
    else:
        camp.rule = ("as C08 with k in 3..5 ordered groups: every I_j is checked as a Craig interpolant for the first j "
                     "groups vs the rest, and I_j & G_(j+1) => I_(j+1) (z3 + cvc5)")
    camp.assumptions = ["z3 5.1 + cvc5 consensus", "symbol sets computed on the generator's ASTs with define-fun expanded"]
    camp.run(case, [(base + i, prop) for i in range(n)])
    return camp.finish(replay_fn=replay(prop), min_evals=20)
