"""C17: everything printed as SMT-LIB is syntactically valid and reads back (by opensmt itself and by z3) to the same object."""
import os
import random
import re
import shutil
import subprocess
import tempfile

from .. import gen, refs, configs, scriptrun as sr, outputs, sexpr, osmt, build
from ..core import Campaign, CaseResult, Violation, h
from ..terms import to_smt, T, strip_named, sort_str
from . import models, cores, itp

N_QUICK = 1000
N_THOROUGH = 16000

HOSTILE = ["let", "par", "as", "forall", "exists", "assert", "push", "define-fun", "a b", "p(q)", "x;y", "q\"r",
           "x#1", "#b101", "1abc", "007", "-5", "-0.5", "a.b", "x!0", "x0", "x1", "true1", "y!0", "_", "!",
           "a'b", "UPPER", "=>x", "~!@$%^&*_-+=<>.?/", "f(", ")", "[a]", "{a}", "a,b", "a:b", "get-model", "ite1"]
# Names starting with '@' or '.' are reserved for solver use by SMT-LIB 2.6 (section 3.1) and are therefore not "legal user
# names" in the sense of C17; they are not generated.  z3 treats a quoted reserved word as the reserved word (|as|, |_|, |!| are refused, (|forall| x) is read as
# a quantifier): scripts using such names are read back by opensmt only.  A user symbol named like a theory symbol (|-|) is not
# legal SMT-LIB either and is not generated.
RESERVED = {"let", "par", "as", "forall", "exists", "assert", "push", "pop", "!", "_", "define-fun", "declare-fun",
            "check-sat", "set-logic", "set-option", "exit", "NUMERAL", "DECIMAL", "STRING", "BINARY", "HEXADECIMAL",
            "declare-sort", "define-sort", "declare-const", "get-model", "get-value", "echo", "get-info", "set-info",
            "get-proof", "get-unsat-core", "get-assignment", "get-interpolants", "simplify", "get-option", "theory"}
STRUCT = {"define-fun", "as", "ite", "=", "and", "or", "not", "xor", "=>", "distinct", "+", "-", "*", "/", "<=", "<", ">=", ">",
          "div", "mod", "select", "store", "true", "false", "let", "Int", "Real", "Bool", "Array"}


def hostile_namer(rng):
    pool = list(HOSTILE)
    rng.shuffle(pool)
    used = {}

    def nm(kind, i):
        key = (kind, i)
        if key not in used:
            if kind in ("U", "V"):
                used[key] = kind          # sort names stay simple (declare-sort quoting is a separate concern)
            elif pool and rng.random() < 0.6:
                # "let" and "!" are node tags of the generator's term type: only constants may carry them
                if pool[-1] in ("let", "!", "-") and kind[0] in "fghkpq":
                    pool.insert(0, pool.pop())
                used[key] = pool.pop()
            else:
                used[key] = "%s%s" % (kind, i)
        return used[key]
    return nm


def token_problems(text, user_symbols):
    """Plain (unquoted) symbol tokens that are not valid SMT-LIB in that position."""
    bad = []
    try:
        toks = list(sexpr.tokenize(text))
    except sexpr.SexprError as e:
        return ["not tokenizable: %s" % e]
    for t in toks:
        if t in ("(", ")") or t.startswith("|") or t.startswith('"') or t.startswith(":"):
            continue
        if sexpr.is_numeral(t) or sexpr.is_decimal(t):
            continue
        if t in STRUCT:
            continue
        if not sexpr.is_simple_symbol(t):
            bad.append("token %r is not a simple symbol (needs |...|)" % t)
        elif t in RESERVED:
            bad.append("reserved word %r printed as a plain symbol" % t)
        elif re.match(r"^-?[0-9]", t):
            bad.append("token %r reads as a number" % t)
    return bad[:3]


def build_case(seed):
    rng = random.Random(seed * 61 + 37)
    kind = ["model", "model", "itp", "fullcore", "dump"][seed % 5]
    nm = hostile_namer(rng)
    if kind == "model":
        logic = rng.choice(["QF_LIA", "QF_LRA", "QF_UFLIA", "QF_UFLRA", "QF_UF", "QF_IDL", "QF_RDL"])
        g = gen.ScriptGen(seed, logic=logic, opts={"boundary": 0.05, "ite": 0.15}, namer=nm)
        options = [(":produce-models", "true")]
        cmds = g.header(options)
        for _ in range(rng.randint(1, 4)):
            cmds.append(g.assertion(depth=rng.choice([1, 2])))
        cmds.append({"k": "check-sat"})
        cmds.append({"k": "get-model"})
        terms = [g.tg.term(s, 1) for s in (["Bool"] + list(gen.LOGICS[logic]["arith"]) + list(g.sig.sorts)) if g.sig.consts.get(s)]
        cmds.append({"k": "get-value", "terms": [t for t in terms if t is not None]})
    elif kind == "itp":
        logic = rng.choice(["QF_UF", "QF_LRA", "QF_LIA"])
        g = gen.ScriptGen(seed, logic=logic, opts={"boundary": 0.02, "max_const": 2}, namer=nm)
        cmds = g.header([(":produce-interpolants", "true")])
        body = []
        for i in range(rng.randint(2, 5)):
            body.append(g.assertion(depth=rng.choice([1, 2]), named="n%d" % i))
        t = strip_named(rng.choice(body)["term"])
        body.append({"k": "assert", "term": T("!", (T("not", (t,)),), "Bool", "nneg")})
        cmds += body + [{"k": "check-sat"}]
        names = ["n%d" % i for i in range(len(body) - 1)] + ["nneg"]
        rng.shuffle(names)
        k = rng.randint(1, len(names) - 1)
        cmds.append({"k": "get-interpolants", "groups": [names[:k], names[k:]]})
    elif kind == "fullcore":
        logic = rng.choice(gen.ALL_LOGICS)
        g = gen.ScriptGen(seed, logic=logic, opts={"boundary": 0.02, "max_const": 2}, namer=nm)
        cmds = g.header([(":produce-unsat-cores", "true"), (":print-cores-full", "true")])
        body = [g.assertion(depth=rng.choice([1, 2])) for _ in range(rng.randint(2, 5))]
        t = strip_named(rng.choice(body)["term"])
        body.append({"k": "assert", "term": T("not", (t,))})
        cmds += body + [{"k": "check-sat"}, {"k": "get-unsat-core"}]
    else:
        logic = rng.choice(gen.ALL_LOGICS)
        g = gen.ScriptGen(seed, logic=logic, opts={"boundary": 0.04, "ite": 0.15, "divmod": 0.15}, namer=nm)
        cmds = g.header([])
        cmds += g.history(rng.randint(4, 10), p={"pop": 0.08, "define": 0.1})
    return kind, cmds


def read_in_z3(decl_lines, body_lines):
    text = "\n".join(decl_lines + body_lines) + "\n"
    return refs.z3new(text)


def read_in_opensmt(logic_name, decl_lines, body_lines):
    text = "(set-logic %s)\n" % logic_name + "\n".join(decl_lines + body_lines) + "\n(check-sat)\n"
    run = osmt.run_opensmt(text, flavour="rel", cpu_s=6)
    return run


def decl_lines(cmds, skip=()):
    return [gen.cmd_text(c) for c in cmds if c["k"] in ("declare-sort", "declare-fun") and c.get("name") not in skip]


def judge(kind, cmds, res=None):
    bad = []
    user = {c["name"] for c in cmds if c["k"] == "declare-fun"}
    logic_name = sr.logic_of(cmds)
    use_z3 = not (user & RESERVED)
    if kind == "dump":
        d = tempfile.mkdtemp(dir=osmt.scratch_dir("dump"))
        try:
            opts = [{"k": "set-option", "name": ":dump-query", "val": "true"},
                    {"k": "set-option", "name": ":dump-query-name", "val": '"%s/q"' % d}]
            run, resp, last = sr.execute(opts + cmds, cpu_s=6)
            answers = [sr.answer_of(r) for c, r in zip(opts + cmds, resp) if c["k"] == "check-sat"]
            files = sorted(os.listdir(d), key=lambda f: int(re.findall(r"(\d+)\.smt2$", f)[0]) if re.findall(r"(\d+)\.smt2$", f) else 0)
            for f, ans in zip(files, answers):
                if res is not None:
                    res.evals += 1
                text = open(os.path.join(d, f), errors="replace").read()
                r2 = osmt.run_opensmt(text, flavour="rel", cpu_s=6)
                if "yntax error" in r2.out or "At line" in r2.out or "(error" in r2.out:
                    m = re.search(r"(declare-const \(as|syntax error[^\n]*|\(error [^\n]*)", text + r2.out)
                    bad.append(("dumped-query-not-readable", "opensmt:" + (models.errkind(r2.out) if "(error" in r2.out else "syntax"),
                                "opensmt cannot read its own dumped query %s:\n%s\n--- dumped file ---\n%s" % (f, r2.out[:300], text[:1500])))
                    break
                a2 = sr.answer_of(r2.out)
                if ans in ("sat", "unsat") and a2 in ("sat", "unsat") and a2 != ans:
                    bad.append(("dumped-query-different-answer", "opensmt", "original check answered %s, the dumped query %s answers %s\n%s" % (ans, f, a2, text[:1500])))
                    break
                # another tool: z3 (internal symbols starting with . are legal simple symbols for z3)
                zt = re.sub(r"\(exit\)", "", text)
                q = refs.z3new(zt) if use_z3 else "skipped"
                if q.startswith("error"):
                    bad.append(("dumped-query-not-readable", "z3", "z3 cannot read the dumped query %s: %s\n%s" % (f, q[:200], text[:1500])))
                    break
                if ans in ("sat", "unsat") and q in ("sat", "unsat") and q != ans:
                    c5 = refs.cvc5(zt)
                    if c5 == q:
                        bad.append(("dumped-query-different-answer", "z3+cvc5", "original check answered %s, z3 and cvc5 answer %s on the dumped query\n%s" % (ans, q, text[:1500])))
                        break
                if res is not None:
                    res.inc("dumped_queries_read_back")
        finally:
            shutil.rmtree(d, ignore_errors=True)
        return bad, None
    run, resp, last = sr.execute(cmds, cpu_s=6)
    state = None
    model = None
    for i, c, r, m in sr.walk(cmds, resp, last):
        k = c["k"]
        if k == "check-sat":
            state = sr.answer_of(r)
        elif k == "get-model" and state == "sat" and not sr.is_error(r):
            if res is not None:
                res.evals += 1
            tp = token_problems(r, user)
            if tp:
                bad.append(("invalid-token-in-model", tp[0].split(" ")[0] + ":" + ("reserved" if "reserved" in tp[0] else "quote"), "get-model output is not valid SMT-LIB: %s\n%s" % (tp[0], r[:800])))
                continue
            try:
                model = outputs.parse_model(r)
            except outputs.OutputError as e:
                bad.append(("model-not-parseable", "sexpr", "%s\n%s" % (e, r[:500])))
                continue
            # z3 read-back (abstract values become fresh constants)
            asserts = ["(assert %s)" % to_smt(t, "osmt", strip_names=True) for t in m.assertions()]
            txt = outputs.model_problem(cmds, model, asserts)
            q = refs.z3new(txt) if use_z3 else "skipped"
            if q.startswith("error"):
                bad.append(("model-not-readable", "z3", "z3 cannot read the printed model: %s\n%s" % (q[:300], r[:800])))
                continue
            # opensmt read-back: definitions as printed + original assertions must be sat, without any error
            has_abstract = "(as @" in r
            if not has_abstract:
                lines = [gen.cmd_text(x) for x in cmds if x["k"] == "declare-sort"]
                lines += [sexpr.dump(e) for e in sexpr.parse_one(r)]
                rr = read_in_opensmt(logic_name, lines, asserts)
                if "(error" in rr.out or "yntax error" in rr.out or "At line" in rr.out:
                    bad.append(("model-not-readable", "opensmt:" + (models.errkind(rr.out) if "(error" in rr.out else "syntax"),
                                "opensmt cannot read back its own model:\n%s\n--- model ---\n%s" % (rr.out[:300], r[:800])))
                    continue
                if sr.answer_of(rr.out) == "unsat":
                    bad.append(("model-reads-back-differently", "opensmt", "the printed model read back by opensmt falsifies the assertions\n%s" % r[:800]))
                    continue
            elif res is not None:
                res.inc("models_with_abstract_values_(z3_only)")
            if res is not None:
                res.inc("models_read_back")
        elif k == "get-value" and state == "sat" and not sr.is_error(r):
            if res is not None:
                res.evals += 1
            tp = token_problems(r, user)
            if tp:
                bad.append(("invalid-token-in-values", "quote" if "simple symbol" in tp[0] or "number" in tp[0] else "reserved",
                            "get-value output is not valid SMT-LIB: %s\n%s" % (tp[0], r[:600])))
                continue
            if res is not None:
                res.inc("value_responses_valid")
        elif k in ("get-interpolants", "get-unsat-core") and state == "unsat" and not sr.is_error(r):
            if res is not None:
                res.evals += 1
            tp = token_problems(r, user)
            if tp:
                bad.append(("invalid-token-in-formula", k + ":" + ("reserved" if "reserved" in tp[0] else "quote"), "%s output is not valid SMT-LIB: %s\n%s" % (k, tp[0], r[:600])))
                continue
            try:
                forms = sexpr.parse_one(r)
            except sexpr.SexprError as e:
                bad.append(("formula-not-parseable", k, "%s\n%s" % (e, r[:400])))
                continue
            decls = decl_lines(cmds)
            body = ["(assert %s)" % sexpr.dump(f) for f in forms]
            rr = read_in_opensmt(logic_name, decls + [gen.cmd_text(x) for x in m.defs().values()], body)
            if "(error" in rr.out or "yntax error" in rr.out or "At line" in rr.out:
                bad.append(("formula-not-readable", "opensmt:" + k, "opensmt cannot read back what %s printed:\n%s\n%s" % (k, rr.out[:300], r[:600])))
                continue
            ctx = outputs.RefCtx()
            ztxt = ["(assert %s)" % outputs.term_to_ref(f, ctx) for f in forms]
            q = refs.z3new("\n".join([gen.cmd_text(x, "ref") for x in sr.decls_of(cmds)] + ctx.decls() + ztxt)) if use_z3 else "skipped"
            if q.startswith("error"):
                bad.append(("formula-not-readable", "z3:" + k, "z3 cannot read what %s printed: %s\n%s" % (k, q[:200], r[:600])))
                continue
            a1 = sr.answer_of(rr.out)
            if a1 in ("sat", "unsat") and q in ("sat", "unsat") and a1 != q:
                bad.append(("formula-reads-back-differently", k, "opensmt reads the printed formulas as %s, z3 as %s\n%s" % (a1, q, r[:600])))
                continue
            if res is not None:
                res.inc("formulas_read_back")
    return bad, run


def case(seed):
    res = CaseResult()
    kind, cmds = build_case(seed)
    bad, run = judge(kind, cmds, res)
    res.inc("kind_" + kind)
    if not bad and res.evals:
        res.dkeys.append(h(gen.render(cmds, markers=False)))
    if seed % 41 == 0:
        res.sample = {"kind": kind, "script": gen.render(cmds, markers=False)[:1500]}
    seen = set()
    for b in bad:
        if b[0] in seen:
            continue
        seen.add(b[0])

        def pred(cand, b=b):
            bb, _ = judge(kind, cand)
            return any(x[0] == b[0] and x[1] == b[1] for x in bb)
        small = sr.shrink(cmds, pred, budget=40)
        bb, _ = judge(kind, small)
        bb = [x for x in bb if x[0] == b[0] and x[1] == b[1]]
        if not bb:
            small, bb = cmds, [b]
        res.viol.append(Violation(b[0], b[1], "%s\n--- script ---\n%s" % (bb[0][2][:2500], gen.render(small, markers=False)),
                                  dict(sr.witness(small, prop="C17"), kind=kind)))
    return res


def replay(prop):
    def f(w):
        cmds = sr.cmds_from_witness(w)
        bad, _ = judge(w.get("kind", "model"), cmds)
        out, seen = [], set()
        for b in bad:
            if b[0] not in seen:
                seen.add(b[0])
                out.append(Violation(b[0], b[1], "replayed: " + b[2][:400], w))
        return out
    return f


def main(prop, tier):
    camp = Campaign(prop, tier)
    n = N_QUICK if tier == "quick" else N_THOROUGH
    n = int(__import__("os").environ.get("VERIF_CASES", n))
    base = camp.seed * 1000003 + 17000
    camp.rule = ("scripts whose user symbols are drawn from a hostile pool (reserved words, names needing quotes: spaces, "
                 "parentheses, ';', '\"', '#', leading digit, number-like, '.frame1', '@0', names equal to model formals) print "
                 "models, values, interpolants, full cores and dumped queries; each printed object must consist of valid SMT-LIB "
                 "tokens (own strict reader), be read by z3, and be read back by a fresh opensmt with the original "
                 "declarations (model definitions + assertions sat; formulas parse; dumped query gives the same answer); "
                 "distinct_nontrivial = scripts whose printed objects all read back")
    camp.assumptions = ["abstract values (as @k U) are mapped to fresh constants for z3 and are not read back by opensmt "
                        "(no SMT-LIB tool can declare them)"]
    camp.run(case, [base + i for i in range(n)], chunksize=2)
    return camp.finish(replay_fn=replay(prop), min_evals=n // 2)
