"""C24 / C25: ThreadSanitizer + AddressSanitizer harnesses with result monitors.
C24: h_threads - independent solver instances in 2..8 threads; every concurrent result must equal the run-alone result (and the
     brute-force truth), no sanitizer report.
C25: h_stop - notifyStop / notifyGlobalStop from another thread at chosen logical moments (stopPoint hook) and at free-running
     delays; result must be unknown or the correct answer (sat: model holds), no sanitizer report."""
import glob
import os
import re
import shutil
import subprocess
import tempfile

from .. import build, osmt
from ..core import Campaign, CaseResult, Violation, h


def parse_tsan(text):
    """-> list of (kind, site, block) for every report block; site = first opensmt frames of the two stacks."""
    out = []
    for blk in re.split(r"^==================\s*$", text, flags=re.M):
        m = re.search(r"WARNING: ThreadSanitizer: ([^\n(]+)", blk)
        if not m:
            continue
        kind = m.group(1).strip().replace(" ", "-")
        stacks = re.split(r"\n\s*\n", blk)
        tops = []
        for st in stacks[:2]:
            fr = [f for f in re.findall(r"#\d+ (\S+?)\(", st) if "opensmt::" in f or f in ("main",)]
            fr = [re.sub(r"<.*", "", f) for f in fr]
            if fr:
                tops.append(fr[0])
        out.append((kind, "|".join(sorted(set(tops))) or "unknown", blk.strip()[:3000]))
    m = re.search(r"ThreadSanitizer:DEADLYSIGNAL|ThreadSanitizer: SEGV[^\n]*", text)
    if m:
        out.append(("deadly-signal", "signal", text[-2500:]))
    return out


def run_sanitized(flavour, name, args, timeout):
    exe = build.harness_path(flavour, name)
    d = tempfile.mkdtemp(dir=osmt.scratch_dir("threads"))
    env = dict(os.environ)
    env["TSAN_OPTIONS"] = "halt_on_error=0:log_path=%s/tsan:history_size=4:second_deadlock_stack=1" % d
    env["ASAN_OPTIONS"] = "abort_on_error=0:detect_leaks=0:log_path=%s/asan" % d
    env["UBSAN_OPTIONS"] = "print_stacktrace=1:halt_on_error=1:log_path=%s/ubsan" % d
    try:
        try:
            p = subprocess.run([exe] + [str(a) for a in args], stdout=subprocess.PIPE, stderr=subprocess.PIPE, env=env, timeout=timeout)
            rc, out, err = p.returncode, p.stdout.decode("utf-8", "replace"), p.stderr.decode("utf-8", "replace")
        except subprocess.TimeoutExpired as e:
            rc, out, err = None, (e.stdout or b"").decode("utf-8", "replace"), "timeout"
        logs = ""
        for f in sorted(glob.glob(d + "/*")):
            logs += open(f, errors="replace").read() + "\n"
    finally:
        shutil.rmtree(d, ignore_errors=True)
    return rc, out, err, logs


def sanitizer_violations(res, flavour, logs, err, w):
    seen = set()
    for kind, site, blk in parse_tsan(logs + "\n" + err):
        if (kind, site) in seen:
            continue
        seen.add((kind, site))
        res.viol.append(Violation("tsan-" + kind, site, "ThreadSanitizer report (%s flavour):\n%s" % (flavour, blk), w))
    m = re.search(r"ERROR: AddressSanitizer: ([a-zA-Z-]+)", logs + err)
    if m:
        frames = [f for f in re.findall(r"#\d+ 0x[0-9a-f]+ in ([^\s(]+)", logs + err) if "opensmt" in f][:2]
        res.viol.append(Violation("asan-" + m.group(1), ">".join(frames) or "unknown", "AddressSanitizer report:\n%s" % (logs + err)[-3000:], w))
    m = re.search(r"([A-Za-z_./]+):(\d+):\d+: runtime error: ([^\n]*)", logs + err)
    if m:
        res.viol.append(Violation("ubsan", "%s:%s" % (os.path.basename(m.group(1)), re.sub(r"-?\d+", "N", m.group(3))[:60]),
                                  "UBSan report:\n%s" % (logs + err)[-2000:], w))


def stats_into(res, out):
    for line in out.split("\n"):
        if line.startswith("STAT "):
            _, k, v = line.split()
            res.inc(k, int(v))


# --------------------------------------------------------------------------- C24

def c24_case(param):
    flavour, seed, rounds, threads = param
    res = CaseResult()
    w = {"prop": "C24", "flavour": flavour, "seed": seed, "rounds": rounds, "threads": threads}
    rc, out, err, logs = run_sanitized(flavour, "h_threads", [seed, rounds, threads], timeout=3600)
    sanitizer_violations(res, flavour, logs, err, w)
    stats_into(res, out)
    n = 0
    for line in out.split("\n"):
        if line.startswith("MISMATCH "):
            f = dict(x.strip().split("=", 1) for x in line.split("|")[1:] if "=" in x)
            fam = line.split()[3]
            alone, conc, truth = f.get("alone", ""), f.get("concurrent", ""), f.get("truth", "")
            what = "alone-wrong" if (truth and not alone.startswith(truth)) or "model-bad" in alone or alone.startswith("exception") \
                else "concurrent-differs"
            n += 1
            if n <= 2:
                res.viol.append(Violation("instance-interference", "family%s:%s" % (fam, what),
                                          "an instance returned something else than when run alone: %s (h_threads %s %s %s, %s flavour)" % (
                                              line, seed, rounds, threads, flavour), w))
    if "DONE" not in out:
        if rc is None:
            res.inconclusive += 1
            res.inc("timeouts")
        elif not res.viol:
            res.viol.append(Violation("harness-died", "rc%s" % rc, "h_threads ended without DONE (rc=%s): %s" % (rc, (err + logs)[-1500:]), w))
        return res
    m = re.search(r"STAT instances (\d+)", out)
    inst = int(m.group(1)) if m else 0
    res.evals += inst
    res.inc("threads_%d_%s" % (threads, flavour), inst)
    if not res.viol:
        res.dkeys.append("c24:%s:%d:%d" % (flavour, seed, threads))
        for i in range(inst):
            res.dkeys.append("c24i:%s:%d:%d:%d" % (flavour, seed, threads, i))
    return res


def c24_replay(w):
    return c24_case((w["flavour"], w["seed"], w["rounds"], w["threads"])).viol


# --------------------------------------------------------------------------- C25

def c25_case(param):
    flavour, seed, trials, mode = param
    res = CaseResult()
    w = {"prop": "C25", "flavour": flavour, "seed": seed, "trials": trials, "mode": mode}
    rc, out, err, logs = run_sanitized(flavour, "h_stop", [seed, trials, mode], timeout=3600)
    sanitizer_violations(res, flavour, logs, err, w)
    stats_into(res, out)
    seen = set()
    for line in out.split("\n"):
        if line.startswith("WRONG "):
            f = line.split()
            fam, kind = f[2], f[3]
            got = re.search(r"got=(\S+)", line).group(1)
            key = (fam, kind, got)
            if key in seen:
                continue
            seen.add(key)
            cls = "reference-run-wrong" if f[1] == "-1" else "stopped-check-wrong-answer"
            res.viol.append(Violation(cls, "family%s:%s:%s" % (fam, kind, got), "%s (h_stop %s %s %s, %s flavour)" % (line, seed, trials, mode, flavour), w))
    if "DONE" not in out:
        if rc is None:
            res.inconclusive += 1
            res.inc("timeouts")
        elif not res.viol:
            res.viol.append(Violation("harness-died", "rc%s" % rc, "h_stop ended without DONE (rc=%s): %s" % (rc, (err + logs)[-1500:]), w))
        return res
    m = re.search(r"STAT trials (\d+)", out)
    n = int(m.group(1)) if m else 0
    res.evals += n
    res.inc("stops_%s_%s" % (mode, flavour), n)
    if not res.viol:
        for i in range(n):
            res.dkeys.append("c25:%s:%s:%d:%d" % (flavour, mode, seed, i))
    return res


def c25_replay(w):
    return c25_case((w["flavour"], w["seed"], w["trials"], w["mode"])).viol


def main(prop, tier):
    camp = Campaign(prop, tier)
    base = camp.seed
    quick = tier == "quick"
    if prop == "C24":
        params = []
        nts, nas, rounds = (16, 16, 10) if quick else (160, 160, 60)
        for i in range(nts):
            params.append(("tsan", base * 1000 + i, rounds, [2, 4, 8][i % 3]))
        for i in range(nas):
            params.append(("asan", base * 1000 + 500 + i, rounds * 3, [8, 4, 2][i % 3]))
        for i in range(16 if quick else 64):
            params.append(("rel", base * 1000 + 800 + i, rounds * (12 if quick else 40), 8))     # full speed, 8 threads x 16 processes
        camp.rule = ("h_threads: per round 2/4/8 problems (integer problems scaled by a ~2^72 factor with brute-force ground truth, "
                     "rational problems with ~70-bit numerators and denominators, uninterpreted functions, small-number control group, and "
                     "the arbitrary-precision number kernels gcd/lcm/floor/ceil/division on 20-40 digit operands) "
                     "are solved alone and then concurrently, every thread with its own logic, configuration and solver, terms built "
                     "inside the concurrent section after a common start; monitors: concurrent result (status and model check) equals "
                     "the run-alone result and the brute-force truth; zero ThreadSanitizer reports (tsan build of library and harness, "
                     "halt_on_error=0, reports de-duplicated by the first opensmt frames of the two stacks) and zero ASan/UBSan reports "
                     "(asan build); the release build repeats the result monitor at full speed with 8 threads in each of 16 "
                     "processes; distinct_nontrivial = instances whose concurrent run agreed in a process without any report")
        camp.assumptions = ["libgmp itself is not instrumented: a race inside GMP on shared data is only visible through wrong results",
                            "interleavings are those the scheduler produced under sanitizer slow-down, not all interleavings"]
        camp.run(c24_case, params, chunksize=1)
        return camp.finish(replay_fn=c24_replay, min_evals=100)
    if prop == "C25":
        params = []
        nts, nrel, trials = (12, 16, 60) if quick else (120, 200, 300)
        for i in range(nts):
            params.append(("tsan", base * 1000 + i, trials, "hook" if i % 3 else "free"))
        for i in range(nrel):
            params.append(("rel", base * 1000 + 300 + i, trials * 10, "hook" if i % 2 else "free"))
        camp.rule = ("h_stop: fresh instances of known status (Aardal-Lenstra knapsack unsat/sat in QF_LIA, pigeonhole over "
                     "uninterpreted terms unsat/sat, random clausal QF_LRA) are checked on a worker thread while the main thread issues "
                     "notifyStop (even trials) or notifyGlobalStop (odd trials) - hook mode: as soon as the worker passed the k-th "
                     "logical moment (stopPoint hook at search-loop head, theory check, frame preprocessing, elimination step; k over "
                     "the first moments, the last moments and uniformly between, rendezvous with relaxed atomics only); free mode: after "
                     "a random fraction of the uninterrupted wall time with no callback installed; monitors: result is unknown or the "
                     "known status and a sat result carries a model satisfying every assertion; zero ThreadSanitizer reports (tsan "
                     "build); rel build repeats the result monitor at full speed; distinct_nontrivial = stop requests judged")
        camp.assumptions = ["the status of the random QF_LRA family is taken from an uninterrupted run of the same build",
                            "moments are those of the stopPoint hook; a request lands a few instructions after the chosen moment"]
        camp.run(c25_case, params, chunksize=1)
        return camp.finish(replay_fn=c25_replay, min_evals=200)
    return 2
