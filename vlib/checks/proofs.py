"""C10: printed resolution proofs are closed, valid refutations of the current assertions."""
import random
import re

from .. import gen, refs, configs, scriptrun as sr, outputs, sexpr, osmt
from ..core import Campaign, CaseResult, Violation, h
from ..terms import T, strip_named
from . import trace as tr

N_QUICK = 300
N_THOROUGH = 16000


def build(seed):
    rng = random.Random(seed * 47 + 23)
    logic = gen.ALL_LOGICS[seed % len(gen.ALL_LOGICS)]
    g = gen.ScriptGen(seed, logic=logic, opts={"boundary": 0.03, "max_const": 2})
    options = [(":produce-proofs", "true")] + configs.sat_tuning(rng)
    if rng.random() < 0.2:
        options += configs.ENGINES[rng.choice(["lookahead", "picky"])]
    seen = set()
    options = [o for o in options if not (o[0] in seen or seen.add(o[0]))]
    hist = g.history(rng.randint(8, 26), p={"assert_": 0.55, "check": 0.2, "push": 0.14, "pop": 0.1, "reassert": 0.2, "define": 0.03},
                     queries=("get-proof",))
    out, asserted = [], []
    for c in hist:
        out.append(c)
        if c["k"] == "assert":
            asserted.append(strip_named(c["term"]))
            if rng.random() < 0.3:
                out.append({"k": "assert", "term": T("not", (rng.choice(asserted),))})
    return g.header(options) + gen.dedup_asserts(out, rng, keep_p=0.3)


def lit_key(x):
    """(atom text, positive?)"""
    if isinstance(x, list) and len(x) == 2 and x[0] == "not":
        a, p = lit_key(x[1])
        return a, not p
    return sexpr.dump(x), True


def readings(x):
    """Printed clause -> possible readings (frozensets of literal keys).  The printer writes a clause as (or l1 .. ln)
    and a unit clause as the bare literal, so `(or a b)` can be the clause {a, b} or the unit clause whose literal is the
    formula (or a b) (Tseitin literals are printed as the sub-formulas they stand for).  Both readings are kept and the
    resolution steps / stated resolvents decide."""
    unit = frozenset([lit_key(x)])
    if isinstance(x, list) and x and x[0] == "or" and len(x) > 2:
        return [frozenset(lit_key(l) for l in x[1:]), unit]
    return [unit]


def stated_resolvents(text):
    """cls name -> stated clause from the '; ...' comment line preceding its let."""
    out = {}
    lines = text.split("\n")
    for i, ln in enumerate(lines[:-1]):
        if ln.startswith("; "):
            m = re.match(r"\(let \((cls_\d+) ", lines[i + 1])
            if m:
                body = ln[2:].strip()
                if body == "-":
                    out[m.group(1)] = [frozenset()]
                else:
                    try:
                        xs = sexpr.parse_all(body)
                        out[m.group(1)] = readings(xs[0]) if len(xs) == 1 else [frozenset(lit_key(l) for l in xs)]
                    except sexpr.SexprError:
                        pass
    return out


class ProofError(Exception):
    def __init__(self, cls, msg):
        Exception.__init__(self, msg)
        self.cls = cls


def check_structure(text):
    """Returns (leaves: {name: (clause, sexpr)}, derived count). Raises ProofError."""
    try:
        top = sexpr.parse_one(text)
    except sexpr.SexprError as e:
        raise ProofError("malformed-proof", "proof is not one s-expression: %s" % e)
    if not (isinstance(top, list) and len(top) >= 2 and top[0] == "proof"):
        raise ProofError("malformed-proof", "unexpected top-level shape")
    stated = stated_resolvents(text)
    bound = {}
    leaves = {}
    nres = 0

    def evalres(x):
        """-> list of possible clauses (more than one only for an ambiguous leaf)."""
        nonlocal nres
        if isinstance(x, str):
            if x not in bound:
                raise ProofError("unbound-clause-name", "clause name %s is used but not bound (yet)" % x)
            return bound[x]
        if isinstance(x, list) and len(x) == 4 and x[0] == "res":
            As, Bs = evalres(x[1]), evalres(x[2])
            piv = lit_key(x[3])[0]
            outs = []
            for a in As:
                for b in Bs:
                    pa = {p for (t, p) in a if t == piv}
                    pb = {p for (t, p) in b if t == piv}
                    if (True in pa and False in pb) or (False in pa and True in pb):
                        outs.append(frozenset(l for l in (a | b) if l[0] != piv))
            if not outs:
                raise ProofError("bad-resolution-step", "pivot %s does not occur with opposite signs in %s and %s" % (
                    piv, sorted(As[0]), sorted(Bs[0])))
            nres += 1
            return outs[:2]
        raise ProofError("malformed-proof", "unexpected proof term %s" % sexpr.dump(x)[:200])

    cur = top[1]
    while isinstance(cur, list) and len(cur) == 3 and cur[0] == "let":
        binding = cur[1]
        if isinstance(binding, list) and len(binding) == 1 and isinstance(binding[0], str):
            binding = [binding[0], None]          # an empty leaf clause is printed as nothing
        if not (isinstance(binding, list) and len(binding) == 2 and isinstance(binding[0], str)):
            raise ProofError("malformed-proof", "bad let binding %s" % sexpr.dump(binding)[:200])
        name, d = binding
        if name in bound:
            raise ProofError("clause-bound-twice", "clause name %s is bound twice" % name)
        if isinstance(d, list) and d and d[0] == "res":
            cs = evalres(d)
            if name in stated:
                agree = [c for c in cs if c in stated[name]]
                if not agree:
                    raise ProofError("resolvent-differs-from-stated", "%s: computed resolvent %s, stated %s" % (
                        name, sorted(cs[0]), sorted(stated[name][0])))
                cs = agree
            bound[name] = cs
        elif d is None:
            bound[name] = [frozenset()]
            leaves[name] = (frozenset(), "false")
        else:
            bound[name] = readings(d)
            leaves[name] = (bound[name][0], d)
        cur = cur[2]
    if not isinstance(cur, str):
        raise ProofError("malformed-proof", "proof does not end in a clause name: %s" % sexpr.dump(cur)[:200])
    if cur not in bound:
        raise ProofError("unbound-clause-name", "the final clause %s is not bound by any let" % cur)
    if frozenset() not in bound[cur]:
        raise ProofError("final-clause-not-empty", "the final clause %s is %s" % (cur, sorted(bound[cur][0])))
    return leaves, nres


def check_leaves(leaves, roots, active, decls, res, budget=40):
    """Each leaf: activation of an active frame, T-valid, or implied by the roots of the active frames."""
    bad = []
    n = 0
    for name, (c, d) in sorted(leaves.items()):
        if len(c) == 1:
            (t, p), = c
            m = re.match(r"^\.frame(\d+)$", t)
            if m and not p:
                if int(m.group(1)) in active:
                    if res is not None:
                        res.inc("leaf_activation")
                    continue
                bad.append(("leaf-activates-popped-level", "%s = (not %s) but the active levels are %s" % (name, t, sorted(active))))
                continue
        n += 1
        if n > budget:
            continue
        ctx = outputs.RefCtx()
        try:
            ltxt = outputs.term_to_ref(d, ctx)
            rtxt = [tr.to_ref(r, ctx) for f in sorted(active) for r in roots.get(f, [])]
        except sexpr.SexprError:
            continue
        header = tr.ref_header(decls, ctx)
        # frame literals that occur but were never declared in the trace (Bool)
        known = {x[0] for x in decls}
        guards = []
        for sym, ren in ctx.internal.items():
            if sym.startswith(".frame"):
                if sym not in known:
                    header.append("(declare-fun %s () Bool)" % ren)
                k = int(sym[6:]) if sym[6:].isdigit() else -1
                if k in active:
                    guards.append("(assert (not %s))" % ren)
        v = tr.decide_unsat(header + ctx.decls() + ["(assert (not %s))" % ltxt])
        if v == "unsat":
            if res is not None:
                res.inc("leaf_theory_valid_or_tautology")
                res.evals += 1
            continue
        v2 = tr.decide_unsat(header + ctx.decls() + guards + ["(assert %s)" % r for r in rtxt] + ["(assert (not %s))" % ltxt])
        if res is not None:
            res.evals += 1
        if v2 == "unsat":
            if res is not None:
                res.inc("leaf_implied_by_active_roots")
            continue
        if v2 == "sat":
            bad.append(("leaf-not-justified", "leaf %s = %s is neither a valid theory lemma nor implied by the assertions of the active levels %s" % (
                name, sexpr.dump(d)[:400], sorted(active))))
        elif res is not None:
            res.inconclusive += 1
    return bad


def judge(cmds, res=None):
    text = gen.render(cmds)
    run, trace = tr.run_traced(text, cpu_s=6)
    resp, tail, last = gen.split_output(run.out, len(cmds))
    solvers, decls = tr.parse_trace(trace)
    st = solvers.get(1)
    roots, chks = {}, []
    if st:
        for kind, payload in st.events:
            if kind == "R":
                roots.setdefault(payload[0], []).append(payload[1])
            elif kind == "CHK":
                chks.append((payload[0], set(payload[1]), {k: list(v) for k, v in roots.items()}))
    bad = []
    state = None
    nchk = -1
    for i, c, r, m in sr.walk(cmds, resp, last):
        k = c["k"]
        if k in ("assert", "push", "pop", "define-fun"):
            state = None
        elif k == "check-sat":
            state = sr.answer_of(r)
            nchk += 1
        elif k == "get-proof" and state == "unsat":
            if res is not None:
                res.evals += 1
            if sr.is_error(r):
                from .models import errkind
                bad.append((i, "proof-refused:" + errkind(r), r[:200]))
                continue
            try:
                leaves, nres = check_structure(r)
            except ProofError as e:
                bad.append((i, e.cls, str(e)[:1500]))
                continue
            if res is not None:
                res.inc("proofs_structurally_valid")
                res.inc("resolution_steps", nres)
            if 0 <= nchk < len(chks) and chks[nchk][0] == "unsat":
                _, active, rts = chks[nchk]
                lb = check_leaves(leaves, rts, active, decls, res)
                for cls, msg in lb[:1]:
                    bad.append((i, cls, msg))
                if not lb and res is not None:
                    res.inc("proofs_fully_validated")
    return bad, run


def site_for(cls, cmds, msg=""):
    if cls == "bad-resolution-step":
        m = re.match(r"pivot (\S+) does not", msg)
        return "pivot-is-constant" if m and m.group(1) in ("true", "false") else "pivot-term"
    if cls.startswith("leaf"):
        return "pop" if any(c["k"] == "pop" for c in cmds) else "nopop"
    if cls == "resolvent-differs-from-stated":
        # which literals the stated clause lacks (or has in excess): kinds only, so that the site names the shape of the gap
        m = re.search(r"computed resolvent (\[.*\]), stated (\[.*\])", msg, re.S)
        if m:
            try:
                comp, stated = eval(m.group(1)), eval(m.group(2))

                def kind(l):
                    t, pos = l
                    k = "ite-aux" if t.startswith(".ite") else "frame" if t.startswith(".frame") else \
                        "or-term" if t.startswith("(or ") else "and-term" if t.startswith("(and ") else "atom"
                    return ("" if pos else "neg-") + k
                extra = sorted({kind(l) for l in comp if l not in stated})
                lack = sorted({kind(l) for l in stated if l not in comp})
                return "extra:%s;lacking:%s" % ("+".join(extra) or "-", "+".join(lack) or "-")
            except Exception:
                pass
    return "any"


def case(seed):
    res = CaseResult()
    cmds = build(seed)
    bad, run = judge(cmds, res)
    res.inc("logic_" + sr.logic_of(cmds))
    if run.timeout:
        res.inc("timeout")
    if res.feat.get("proofs_structurally_valid"):
        res.dkeys.append(h(gen.render(cmds, markers=False)))
    if seed % 37 == 0:
        res.sample = {"script": gen.render(cmds, markers=False)[:1500], "stdout_head": run.out[:600]}
    seen = set()
    for b in bad:
        cls = b[1]
        if cls in seen:
            continue
        seen.add(cls)

        def pred(cand, cls=cls):
            bb, _ = judge(cand)
            return any(x[1] == cls for x in bb)
        small = sr.shrink(cmds, pred, budget=40)
        bb, _ = judge(small)
        bb = [x for x in bb if x[1] == cls]
        if not bb:
            small, bb = cmds, [b]
        res.viol.append(Violation(cls, site_for(cls, small, bb[0][2]), "%s (command #%d)\n%s\n--- script ---\n%s" % (
            cls, bb[0][0], bb[0][2], gen.render(small, markers=False)), sr.witness(small, prop="C10")))
    return res


def replay(prop):
    def f(w):
        cmds = sr.cmds_from_witness(w)
        bad, _ = judge(cmds)
        out, seen = [], set()
        for b in bad:
            if b[1] not in seen:
                seen.add(b[1])
                out.append(Violation(b[1], site_for(b[1], cmds, b[2]), "replayed: " + b[2][:400], w))
        return out
    return f


def main(prop, tier):
    camp = Campaign(prop, tier)
    n = N_QUICK if tier == "quick" else N_THOROUGH
    n = int(__import__("os").environ.get("VERIF_CASES", n))
    base = camp.seed * 1000003 + 10000
    camp.rule = ("unsat-biased push/pop histories in all logics with :produce-proofs; every get-proof output is parsed and "
                 "replayed by an own checker: every clause name bound once before use (the final one included), each (res X Y p) "
                 "has p with opposite signs in X and Y and equals the stated resolvent, the last clause is empty; every leaf "
                 "is the activation of an active level, a valid theory lemma (z3/cvc5), or implied by the roots recorded for the "
                 "ACTIVE levels of the same run (hook trace) with their guards; distinct_nontrivial = scripts with >=1 "
                 "structurally valid proof")
    camp.assumptions = ["roots come from the hook trace of the same run (conservative-extension step is C13's)",
                        "z3 5.1 + cvc5 for leaf validity"]
    camp.run(case, [base + i for i in range(n)], chunksize=2)
    return camp.finish(replay_fn=replay(prop), min_evals=20)
