"""C19: a rejected command leaves the solver state unchanged.
S = valid generated script with queries; S+ = S with 1-3 commands inserted that the solver rejects.  The responses of the
original commands in S+ must have the same check-sat answers and the same error pattern as in S, and every model / core /
interpolant printed by S+ must be correct for S (the C03/C06/C08 oracles on the stack model of S)."""
import random

from .. import gen, configs, scriptrun as sr
from ..core import Campaign, CaseResult, Violation, h
from ..terms import T, mkvar
from . import models, cores, itp, answers

N_QUICK = 420
N_THOROUGH = 20000

KINDS = ["ill-sorted-assert", "undeclared-assert", "non-bool-assert", "named-then-fail", "duplicate-name", "bad-declare",
         "bad-define-sort", "duplicate-define", "pop-too-far", "query-wrong-state", "second-set-logic", "late-option",
         "nonlinear-assert"]


def base_script(seed):
    kind = seed % 5
    if kind == 4:
        from . import scopes
        return scopes.build(seed)[0], "answers"       # define-funs, names and their uses across push/pop
    if kind == 0:
        return models.build(seed), "models"
    if kind == 1:
        return cores.build(seed, "C06"), "cores"
    if kind == 2:
        return itp.build(seed, "C08"), "itp"
    return answers.build_case(seed, "C01"), "answers"


def make_rejected(kind, cmds, pos, rng, tag):
    """A raw command expected to be rejected at position pos of cmds (None if not applicable)."""
    m = gen.StackModel()
    depth = 0
    names, defs = [], []
    consts = {}
    for c in cmds[:pos]:
        if c["k"] == "push":
            depth += c["n"]
        elif c["k"] == "pop":
            depth -= c["n"]
        elif c["k"] == "declare-fun" and not c["args"]:
            consts.setdefault(c["ret"] if isinstance(c["ret"], str) else "arr", []).append(c["name"])
        elif c["k"] == "define-fun":
            defs.append(c["name"])
        elif c["k"] == "assert":
            from ..terms import names_in
            names += [n for n, _ in names_in(c["term"])]
    b = consts.get("Bool", ["b0"])[0]
    num = (consts.get("Int") or consts.get("Real") or [None])[0]
    if kind == "ill-sorted-assert":
        return "(assert (and %s 1))" % b
    if kind == "undeclared-assert":
        return "(assert (or %s nosuch_%s))" % (b, tag)
    if kind == "non-bool-assert":
        x = num or (consts.get("U") or [None])[0]
        return "(assert %s)" % x if x else None
    if kind == "named-then-fail":
        return "(assert (and (! %s :named leak_%s) nosuch_%s))" % (b, tag, tag)
    if kind == "duplicate-name":
        return "(assert (! %s :named %s))" % (b, names[-1]) if names else None
    if kind == "bad-declare":
        return "(declare-fun bad_%s () NoSuchSort)" % tag
    if kind == "bad-define-sort":
        return "(define-fun bd_%s () Bool 5)" % tag if num else "(define-fun bd_%s () NoSuchSort %s)" % (tag, b)
    if kind == "duplicate-define":
        return "(define-fun %s () Bool true)" % rng.choice(defs) if defs else None
    if kind == "pop-too-far":
        return "(pop %d)" % (depth + rng.choice([1, 2, 5]))
    if kind == "query-wrong-state":
        return rng.choice(["(get-model)", "(get-value (%s))" % b, "(get-unsat-core)", "(get-proof)"])
    if kind == "second-set-logic":
        return "(set-logic QF_UF)"
    if kind == "late-option":
        return "(set-option :produce-models true)"
    if kind == "nonlinear-assert":
        return "(assert (= (* %s %s) %s))" % (num, num, num) if num else None
    return None


SCOPE_KINDS = ["duplicate-define", "duplicate-define", "duplicate-define", "duplicate-name", "duplicate-name", "named-then-fail",
               "bad-define-sort", "pop-too-far"]


def insert_rejected(cmds, seed, scope_base=False):
    rng = random.Random(seed * 59 + 31)
    start = next(i for i, c in enumerate(cmds) if c["k"] == "set-logic") + 1
    first_body = next((i for i, c in enumerate(cmds) if c["k"] not in ("set-option", "set-logic", "declare-sort", "declare-fun")), len(cmds))
    out = list(cmds)
    inserted = []
    for j in range(rng.choice([1, 1, 2, 3])):
        kind = KINDS[(seed + j * 5) % len(KINDS)] if not scope_base else SCOPE_KINDS[(seed // 5 + j * 3) % len(SCOPE_KINDS)]
        pos = rng.randint(first_body, len(out))
        if scope_base and kind.startswith("duplicate"):
            # inside a pushed level, so that the pop of that level follows the rejected command
            deeper = [i + 1 for i, c in enumerate(out) if c["k"] == "push" and i + 1 >= first_body]
            if deeper:
                pos = rng.choice(deeper) + rng.choice([0, 0, 1])
                pos = min(pos, len(out))
        txt = make_rejected(kind, out, pos, rng, "%d_%d" % (seed % 1000, j))
        if txt is None:
            continue
        c = {"k": "raw", "text": txt, "inserted": kind}
        out.insert(pos, c)
        inserted.append(kind)
    return out, inserted


def responses(cmds):
    run, resp, last = sr.execute(cmds, cpu_s=6)
    return run, resp, last


def judge(cmds, plus, kinds_used, oracle, res=None):
    run0, resp0, last0 = responses(cmds)
    run1, resp1, last1 = responses(plus)
    if run0.timeout or run1.timeout or run0.crashed() or run1.crashed():
        return [], "skip"
    # every inserted command must indeed be rejected, otherwise the case is not about C19
    orig_resp1 = []
    for c, r in zip(plus, resp1):
        if c.get("inserted"):
            if not sr.is_error(r):
                return [], "inserted-not-rejected:" + c["inserted"]
        else:
            orig_resp1.append(r)
    bad = []
    kinds = "+".join(sorted(set(kinds_used)))
    for i, (c, a, b) in enumerate(zip(cmds, resp0, orig_resp1)):
        if res is not None:
            res.evals += 1
        if c["k"] == "check-sat":
            x, y = sr.answer_of(a), sr.answer_of(b)
            if x != y and x in ("sat", "unsat") and y in ("sat", "unsat"):
                bad.append(("answer-changed", kinds, "check-sat #%d answers %s without and %s with the rejected command(s)" % (i, x, y)))
                break
        elif c["k"] == "get-assignment" and not sr.is_error(a) and not sr.is_error(b):
            from .. import outputs
            try:
                na = sorted(n for n, _ in outputs.parse_assignment(a))
                nb = sorted(n for n, _ in outputs.parse_assignment(b))
            except outputs.OutputError:
                continue
            if na != nb:
                bad.append(("names-changed", kinds, "get-assignment #%d lists names %s without and %s with the rejected command(s)" % (i, na, nb)))
                break
        elif sr.is_error(a) != sr.is_error(b):
            bad.append(("acceptance-changed", kinds + ":" + c["k"], "command #%d %s: %s without, %s with the rejected command(s)" % (
                i, gen.cmd_text(c)[:150], a[:120] or "accepted", b[:120] or "accepted")))
            break
    if not bad:
        # outputs may differ in form; they must be correct for S: run the oracles on S+ (rejected commands are not applied)
        diff = any(a != b for a, b in zip(resp0, orig_resp1))
        if diff:
            if oracle == "models":
                bb, _ = models.judge(plus)
                b0, _ = models.judge(cmds)
            elif oracle == "cores":
                bb, _ = cores.judge(plus, "C06")
                b0, _ = cores.judge(cmds, "C06")
            elif oracle == "itp":
                bb, _ = itp.judge(plus, "C08")
                b0, _ = itp.judge(cmds, "C08")
            else:
                bb, b0 = [], []
            c0 = {x[1] for x in b0}
            for x in bb:
                if x[1] not in c0:
                    bad.append(("output-incorrect-after-rejected", kinds + ":" + x[1].split(":")[0], "with the rejected command(s) a printed result is wrong for the script without them: %s" % str(x[2])[:600]))
                    break
    return bad, "ok"


def case(seed):
    res = CaseResult()
    cmds, oracle = base_script(seed)
    plus, kinds = insert_rejected(cmds, seed, scope_base=(seed % 5 == 4))
    if not kinds:
        res.inc("no_insertion_applicable")
        return res
    bad, st = judge(cmds, plus, kinds, oracle, res)
    res.inc("status_" + st.split(":")[0])
    if st.startswith("inserted-not-rejected"):
        res.inc(st)
    for k in kinds:
        res.inc("kind_" + k)
    if st == "ok" and not bad:
        res.dkeys.append(h(gen.render(plus, markers=False)))
    if seed % 43 == 0:
        res.sample = {"inserted": [c["text"] for c in plus if c.get("inserted")], "script_head": gen.render(plus, markers=False)[:900]}
    for b in bad[:1]:
        ins = [c for c in plus if c.get("inserted")]

        def split(cand):
            return [c for c in cand if not c.get("inserted")]

        def pred(cand):
            if not any(c.get("inserted") for c in cand):
                return False
            kk = [c["inserted"] for c in cand if c.get("inserted")]
            bb, s2 = judge(split(cand), cand, kk, oracle)
            return s2 == "ok" and any(x[0] == b[0] for x in bb)
        small = sr.shrink(plus, pred, budget=50)
        kk = [c["inserted"] for c in small if c.get("inserted")]
        bb, s2 = judge(split(small), small, kk, oracle)
        bb = [x for x in bb if x[0] == b[0]]
        if not bb:
            small, bb, kk = plus, [b], kinds
        res.viol.append(Violation(b[0], bb[0][1], "%s\ninserted rejected command(s): %s\n--- script with them ---\n%s" % (
            bb[0][2], [c["text"] for c in small if c.get("inserted")], gen.render(small, markers=False)),
            dict(sr.witness(small, prop="C19"), oracle=oracle)))
    return res


def replay(prop):
    def f(w):
        plus = sr.cmds_from_witness(w)
        cmds = [c for c in plus if not c.get("inserted")]
        kk = [c["inserted"] for c in plus if c.get("inserted")]
        bad, st = judge(cmds, plus, kk, w.get("oracle", "answers"))
        return [Violation(b[0], b[1], "replayed: " + b[2][:300], w) for b in bad[:1]]
    return f


def main(prop, tier):
    camp = Campaign(prop, tier)
    n = N_QUICK if tier == "quick" else N_THOROUGH
    n = int(__import__("os").environ.get("VERIF_CASES", n))
    base = camp.seed * 1000003 + 19000
    camp.rule = ("valid generated scripts with queries (model, core, interpolation and plain workloads) get 1-3 rejected commands of "
                 "13 kinds inserted (ill-sorted/undeclared/non-Bool/non-linear assert, :named sub-term before the failing part, "
                 "duplicate name, bad declare/define, duplicate define, (pop n) beyond the depth, query in the wrong state, second "
                 "set-logic, late pre-initialisation option); each inserted command must answer (error ...); the remaining "
                 "responses must keep check-sat answers and acceptance pattern, and differing outputs must still pass the "
                 "C03/C06/C08 oracles for the script without the commands; distinct_nontrivial = (S,S+) pairs compared clean")
    camp.assumptions = ["oracles of C03/C06/C08 for outputs that differ in form"]
    camp.run(case, [base + i for i in range(n)])
    return camp.finish(replay_fn=replay(prop), min_evals=n)
