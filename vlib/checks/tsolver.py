"""C22: theory-solver verdicts depend only on the asserted literals.
h_tsolver drives LASolver (LRA, LIA), Egraph (UF) and the difference-logic solvers (IDL, RDL) directly with random
assert / check / backtrack walks, the way TSolverHandler drives them.  Oracles: (1) reference solvers on the literal set of every
judged verdict, (2) a fresh solver of the same build given the same literal set (history independence), (3) conflicts are
subsets of the literal set, (4) deductions are implied by the literal set."""
import os
import re
import subprocess
import tempfile

from .. import build, osmt, refs
from ..core import Campaign, CaseResult, Violation, h, is_known

THEORIES = ["lra", "lia", "uf", "idl", "rdl"]
COMPLETE = {"lra", "uf", "idl", "rdl"}


def run(args, timeout=1800):
    exe = build.harness_path("rel", "h_tsolver")
    p = subprocess.run([exe] + [str(a) for a in args], stdout=subprocess.PIPE, stderr=subprocess.PIPE, timeout=timeout)
    return p.returncode, p.stdout.decode("utf-8", "replace"), p.stderr.decode("utf-8", "replace")


def z3_sets(decls, sets, which="z3-new", timeout_ms=4000):
    """One process decides the satisfiability of many literal sets."""
    lines = ["(set-option :timeout %d)" % timeout_ms] + decls
    for lits in sets:
        lines.append("(push 1)")
        lines += ["(assert %s)" % l for l in lits]
        lines += ["(check-sat)", "(pop 1)"]
    d = osmt.scratch_dir("tsolver")
    fd, path = tempfile.mkstemp(suffix=".smt2", dir=d)
    with os.fdopen(fd, "w") as f:
        f.write("\n".join(lines) + "\n")
    try:
        p = subprocess.run([which, path], stdout=subprocess.PIPE, stderr=subprocess.PIPE, timeout=1800)
        out = [l.strip() for l in p.stdout.decode("utf-8", "replace").split("\n") if l.strip()]
    finally:
        os.remove(path)
    if any(l.startswith("(error") for l in out):
        raise RuntimeError("reference solver rejected the literal sets: %s" % [l for l in out if l.startswith("(error")][:2])
    return [l for l in out if l in ("sat", "unsat", "unknown")]


def pattern(ops):
    """'partial-pop-of-unchecked-batch' if some backtrack removed only part of the literals asserted since the last consistent
    check (something the SAT engine never does); else 'engine-like-history'."""
    unchecked = 0
    trail = 0
    for o in ops:
        k = o[0]
        if k in "a":
            unchecked += 1
            trail += 1
        elif k == "g":
            pass
        elif k == "c":
            if not o.endswith("U"):
                unchecked = 0    # only a consistent check settles the batch
        elif k == "p":
            n = min(int(o[2:]), trail)
            if 0 < n < unchecked:
                return "partial-pop-of-unchecked-batch"
            unchecked = max(0, unchecked - n)
            trail -= n
    return "engine-like-history"


def judge_output(theory, out, res=None, per_walk_sat=12):
    """-> list of (class, site, detail, witness)"""
    decls, walks, events = [], {}, []
    for line in out.split("\n"):
        if line.startswith("DECL "):
            decls.append(line[5:])
        elif line.startswith("W "):
            head, ops = line.split(" | ", 1)
            f = head.split()
            walks[f[1]] = {"theory": f[2], "poolSeed": f[3], "protocol": f[4], "ops": [o for o in ops.strip().split(",") if o]}
        elif line[:2] in ("V ", "D ", "H ", "C ", "X "):
            events.append(line)
        elif line.startswith("STAT ") and res is not None:
            _, k, v = line.split()
            res.inc(k, int(v))
    bad = []

    def wit(wk, upto):
        w = walks.get(wk)
        if not w:
            return {"prop": "C22", "theory": theory, "poolSeed": "0", "ops": "", "protocol": "?"}
        return {"prop": "C22", "theory": theory, "poolSeed": w["poolSeed"], "ops": ",".join(w["ops"][:upto + 1]), "protocol": w["protocol"]}

    def site(wk, upto):
        w = walks.get(wk)
        if not w:
            return "%s:?:?" % theory
        return "%s:%s:%s" % (theory, w["protocol"], pattern(w["ops"][:upto + 1]))

    queries, meta = [], []
    sat_seen = {}
    for line in events:
        f = line.split(" | ")
        head = f[0].split()
        kind, wk, idx = head[0], head[1], int(head[2])
        if kind == "V":
            verdict, complete = head[4], head[5] == "1"
            lits = [x.strip() for x in f[1].split(" ; ") if x.strip()] if len(f) > 1 else []
            if verdict == "UNSAT":
                queries.append(lits)
                meta.append(("unsat", wk, idx, line))
            elif verdict == "SAT" and complete and theory in COMPLETE:
                sat_seen[wk] = sat_seen.get(wk, 0) + 1
                if sat_seen[wk] <= per_walk_sat or idx % 7 == 0:
                    queries.append(lits)
                    meta.append(("sat", wk, idx, line))
        elif kind == "D":
            d = f[1].strip()
            lits = [x.strip() for x in f[2].split(" ; ") if x.strip()] if len(f) > 2 else []
            queries.append(lits + ["(not %s)" % d])
            meta.append(("ded", wk, idx, line))
        elif kind == "H":
            bad.append(("verdict-depends-on-history", site(wk, idx), "a fresh solver given the same literals answers differently: %s" % line[:1500], wit(wk, idx)))
        elif kind == "C":
            bad.append(("conflict-not-subset", site(wk, idx), "the conflict mentions a literal that is not asserted: %s" % line[:1500], wit(wk, idx)))
        elif kind == "X":
            if "Overflow detected" in line or "outside" in line:
                if res is not None:
                    res.inc("refused_overflow")       # clean refusal of a constant beyond the difference-logic range
            else:
                bad.append(("exception", "%s:%s" % (theory, re.sub(r"[^A-Za-z]+", "-", f[1])[:40]), "exception during a walk: %s" % line[:600], wit(wk, idx)))
    answers = z3_sets(decls, queries) if queries else []
    if len(answers) != len(queries):
        raise RuntimeError("z3 returned %d answers for %d literal sets" % (len(answers), len(queries)))
    suspects = []
    for (kind, wk, idx, line), lits, a in zip(meta, queries, answers):
        if res is not None:
            res.evals += 1
        if a not in ("sat", "unsat"):
            if res is not None:
                res.inconclusive += 1
            continue
        wrong = (kind in ("unsat", "ded") and a == "sat") or (kind == "sat" and a == "unsat")
        if wrong:
            suspects.append((kind, wk, idx, line, lits, a))
        elif res is not None:
            res.inc("verdicts_confirmed_" + kind)
            if kind != "sat" or len(lits) > 2:
                res.dkeys.append(h(theory + kind + " ".join(sorted(lits))))
    if suspects:
        second = z3_sets(decls, [s[4] for s in suspects], which="z3")       # z3 4.8 as the second reference
        for (kind, wk, idx, line, lits, a), b in zip(suspects, second + ["?"] * len(suspects)):
            if a != b:
                if res is not None:
                    res.inconclusive += 1
                continue
            cls = {"unsat": "unsat-on-satisfiable-set", "sat": "sat-on-unsatisfiable-set", "ded": "deduction-not-implied"}[kind]
            bad.append((cls, site(wk, idx), "references (z3 5.1 and z3 4.8) say %s: %s" % (a, line[:1500]), wit(wk, idx)))
    return bad, walks


def case(param):
    theory, seed, walks = param
    res = CaseResult()
    rc, out, err = run([seed, walks, theory])
    if "DONE" not in out:
        res.viol.append(Violation("harness-died", "%s:rc%s" % (theory, rc), "h_tsolver %s %s %s ended without DONE (rc=%s): %s" % (seed, walks, theory, rc, (err or out)[-800:]),
                                  {"prop": "C22", "theory": theory, "seed": seed, "walks": walks, "whole_run": True}))
        return res
    bad, _ = judge_output(theory, out, res)
    res.inc("theory_" + theory)
    seen = set()
    for cls, site, detail, w in bad:
        if (cls, site) in seen:
            continue
        seen.add((cls, site))
        if not is_known("C22", cls, site) and w.get("ops"):
            w = minimise(theory, cls, w)
            site = "%s:%s:%s" % (theory, w["protocol"], pattern(w["ops"].split(",")))
        res.viol.append(Violation(cls, site, detail + "\nreplay: h_tsolver replay %s %s \"%s\"" % (theory, w.get("poolSeed"), w.get("ops")), w))
    return res


def replay_bad(w):
    rc, out, err = run(["replay", w["theory"], w["poolSeed"], w["ops"]])
    bad, _ = judge_output(w["theory"], out)
    return bad


def minimise(theory, cls, w):
    """Greedy removal of operations while the same class of violation is still reported (engine-protocol walks only lose
    whole tails, so that the minimised history stays one the engine could produce)."""
    ops = [o for o in w["ops"].split(",") if o]

    def still(o):
        ww = dict(w, ops=",".join(o))
        return any(b[0] == cls for b in replay_bad(ww))
    if not still(ops):
        return w
    if w.get("protocol") == "free":
        i, budget = 0, 150
        while i < len(ops) and budget > 0:
            budget -= 1
            c = ops[:i] + ops[i + 1:]
            if still(c):
                ops = c
            else:
                i += 1
    return dict(w, ops=",".join(ops))


def replay(w):
    if w.get("whole_run"):
        return case((w["theory"], w["seed"], w["walks"])).viol
    out = []
    seen = set()
    for cls, site, detail, ww in replay_bad(w):
        if (cls, site) not in seen:
            seen.add((cls, site))
            out.append(Violation(cls, "%s:%s:%s" % (w["theory"], w.get("protocol", "free"), pattern(w["ops"].split(","))), "replayed: " + detail[:400], w))
    return out


def main(prop, tier):
    camp = Campaign(prop, tier)
    per, walks = (6, 150) if tier == "quick" else (32, 1500)
    base = camp.seed
    camp.rule = ("h_tsolver: random walks (50-250 operations, pools of 8-16 atoms over 3-4 variables: bounds and sums with "
                 "coefficients -3..3 and constants up to 2^63 for LRA/LIA, difference atoms for IDL/RDL, equalities and predicates "
                 "over f/g terms for UF) of pushBacktrackPoint+assertLit, check(false/true), getDeduction (deduced literals go on "
                 "the trail), popBacktrackPoints of random depth incl. to 0, re-assertion with the opposite polarity; 80% of the walks "
                 "follow the SAT engine's protocol (a backtrack never splits a batch of not yet checked literals), 20% are free; "
                 "monitors: every UNSAT verdict / failed assert is on a T-unsatisfiable literal set and every complete SAT verdict "
                 "(LRA, UF, IDL, RDL, no pending split) on a T-satisfiable one (z3 5.1, suspects confirmed by z3 4.8); a fresh solver "
                 "given the same literals answers the same; conflicts are subsets of the literal set; deductions are implied; "
                 "distinct_nontrivial = distinct literal sets whose verdict was confirmed")
    camp.assumptions = ["z3 5.1 / z3 4.8 decide the tiny literal sets", "LIA: only the UNSAT half and history independence of UNSAT verdicts",
                        "arrays are not driven directly (ArraySolver needs the Egraph owner): covered only through C01/C11/C13"]
    params = [(t, base * 100 + i * 5 + k, walks) for k, t in enumerate(THEORIES) for i in range(per)]
    camp.run(case, params, chunksize=1)
    return camp.finish(replay_fn=replay, min_evals=2000)
