"""C21: names (:named) and define-fun definitions follow the assertion-stack scopes.
A reference scope model predicts, for every command of a generated history, whether it must be accepted or rejected
and which names may be printed; the first divergence is a violation."""
import random

from .. import gen, configs, scriptrun as sr, outputs, sexpr
from ..core import Campaign, CaseResult, Violation, h
from ..terms import T, mkvar, names_in

N_QUICK = 500
N_THOROUGH = 24000


class Spec:
    """Reference model: stack of levels with names and definitions; global mode keeps them in level 0."""

    def __init__(self, global_mode):
        self.g = global_mode
        self.levels = [{"names": {}, "defs": {}}]
        self.popped_names = []
        self.popped_defs = []

    def visible_names(self):
        out = {}
        for lv in self.levels:
            out.update(lv["names"])
        return out

    def visible_defs(self):
        out = {}
        for lv in self.levels:
            out.update(lv["defs"])
        return out

    def push(self):
        self.levels.append({"names": {}, "defs": {}})

    def pop(self):
        lv = self.levels.pop()
        self.popped_names += [n for n in lv["names"] if n not in self.visible_names()]
        self.popped_defs += [d for d in lv["defs"].values() if d["name"] not in self.visible_defs()]

    def add_name(self, n, t):
        (self.levels[0] if self.g else self.levels[-1])["names"][n] = t
        if n in self.popped_names:
            self.popped_names.remove(n)

    def add_def(self, c):
        (self.levels[0] if self.g else self.levels[-1])["defs"][c["name"]] = c
        self.popped_defs = [d for d in self.popped_defs if d["name"] != c["name"]]


def build(seed):
    """Returns (cmds, expectations): expectations[i] in {'ok','error',None} and per-query visible name sets."""
    rng = random.Random(seed * 53 + 29)
    logic = rng.choice(["QF_UF", "QF_UF_prop", "QF_LRA", "QF_LIA", "QF_UFLIA", "QF_UFLRA", "QF_AX", "QF_IDL"])
    g = gen.ScriptGen(seed, logic=logic, opts={"boundary": 0.0, "max_const": 2, "named": 0.0, "let": 0.0, "defs": 0.0})
    global_mode = rng.random() < 0.3
    options = []
    kind = rng.choice(["cores", "assign", "itp", "plain"])
    if kind == "cores":
        options.append((":produce-unsat-cores", "true"))
    elif kind == "assign":
        options += [(":produce-assignments", "true"), (":produce-models", "true")]
    elif kind == "itp" and logic in ("QF_UF", "QF_UF_prop", "QF_LRA", "QF_LIA"):
        options.append((":produce-interpolants", "true"))
    if global_mode:
        options.append((":global-declarations", "true"))
    cmds = g.header(options)
    exp = [None] * len(cmds)
    spec = Spec(global_mode)
    ncount = [0]
    dcount = [0]

    def fresh_name():
        ncount[0] += 1
        return "n%d" % ncount[0]

    def emit(c, e, vis=None):
        cmds.append(c)
        exp.append((e, vis))

    depth = 0
    for _ in range(rng.randint(18, 45)):
        r = rng.random()
        if r < 0.14 and depth < 4:
            emit({"k": "push", "n": 1}, "ok")
            spec.push()
            depth += 1
        elif r < 0.26 and depth > 0:
            emit({"k": "pop", "n": 1}, "ok")
            spec.pop()
            depth -= 1
        elif r < 0.56:
            # named assertion: fresh name, visible name (must be rejected) or popped name (must be accepted)
            vis = spec.visible_names()
            body = g.tg.boolean(rng.choice([0, 1, 1, 2]))
            q = rng.random()
            if q < 0.2 and vis:
                n, e = rng.choice(sorted(vis)), "error"
            elif q < 0.5 and spec.popped_names:
                n, e = rng.choice(spec.popped_names), "ok"
            else:
                n, e = fresh_name(), "ok"
            nested = rng.random() < 0.25 and e == "ok"
            if nested:
                n2 = fresh_name()
                inner = T("!", (g.tg.boolean(1),), "Bool", n2)
                term = T("!", (T(rng.choice(["and", "or"]), (inner, body)),), "Bool", n)
            else:
                term = T("!", (body,), "Bool", n)
            emit({"k": "assert", "term": term}, e)
            if e == "ok":
                for nn, tt in names_in(term):
                    spec.add_name(nn, tt)
        elif r < 0.68:
            # define-fun: fresh, duplicate of a visible one (rejected) or re-definition of a popped one (accepted)
            vis = spec.visible_defs()
            q = rng.random()
            c = g.define_fun()
            if q < 0.25 and vis:
                c["name"], e = rng.choice(sorted(vis)), "error"
            elif q < 0.5 and spec.popped_defs:
                c["name"], e = rng.choice(spec.popped_defs)["name"], "ok"
            else:
                dcount[0] += 1
                c["name"], e = "fn%d" % dcount[0], "ok"
            c["params"] = [("%s_q%d" % (c["name"], i), s) for i, (_, s) in enumerate(c["params"])]
            # body must not use parameters renamed above: regenerate a closed body
            c["body"] = g.tg.boolean(1)
            emit(c, e)
            if e == "ok":
                spec.add_def(c)
        elif r < 0.8:
            # use of a defined function: visible (accepted) or popped (must be rejected: unknown symbol)
            vis = spec.visible_defs()
            cands = []
            if vis:
                cands.append((rng.choice(sorted(vis.values(), key=lambda d: d["name"])), "ok"))
            pd = [d for d in spec.popped_defs if d["name"] not in vis]
            if pd:
                cands.append((rng.choice(pd), "error"))
            if not cands:
                continue
            d, e = rng.choice(cands)
            args = tuple(g.tg.term(s, 0) for _, s in d["params"])
            app = T(d["name"], args, "Bool")
            emit({"k": "assert", "term": T(rng.choice(["or", "or", "and"]), (app, g.tg.boolean(0)))}, e)
        else:
            emit({"k": "check-sat"}, None)
            vis = sorted(spec.visible_names())
            if kind == "cores":
                emit({"k": "get-unsat-core"}, None, vis)
            elif kind == "assign":
                emit({"k": "get-assignment"}, None, vis)
            elif kind == "itp" and options and options[0][0] == ":produce-interpolants":
                popped = [n for n in spec.popped_names if n not in vis]
                if popped and vis and rng.random() < 0.5:
                    emit({"k": "get-interpolants", "groups": [[rng.choice(popped)], [rng.choice(vis)]]}, "error-if-unsat")
    emit({"k": "check-sat"}, None)
    vis = sorted(spec.visible_names())
    if kind == "cores":
        emit({"k": "get-unsat-core"}, None, vis)
    elif kind == "assign":
        emit({"k": "get-assignment"}, None, vis)
    return cmds, exp, global_mode, kind


def judge(cmds, exp, res=None):
    run, resp, last = sr.execute(cmds, cpu_s=6)
    bad = []
    state = None
    for i, c in enumerate(cmds):
        if i > last:
            break
        r = resp[i]
        e = exp[i]
        k = c["k"]
        if k == "check-sat":
            state = sr.answer_of(r)
            continue
        if k in ("assert", "push", "pop", "define-fun"):
            state = None
        if not isinstance(e, tuple):
            continue
        want, vis = e
        err = sr.is_error(r)
        if want in ("ok", "error"):
            if res is not None:
                res.evals += 1
            if want == "ok" and err:
                what = "named-assert" if (k == "assert" and c["term"].op == "!") else ("define-fun" if k == "define-fun" else ("use-of-definition" if k == "assert" else k))
                bad.append((i, "legal-command-rejected", what, "command #%d %s must be accepted according to the scope model but answered %s" % (
                    i, gen.cmd_text(c)[:200], r[:200])))
                break
            if want == "error" and not err:
                what = "duplicate-name" if (k == "assert" and c["term"].op == "!") else ("duplicate-define-fun" if k == "define-fun" else "use-of-popped-definition")
                bad.append((i, "illegal-command-accepted", what, "command #%d %s must be rejected according to the scope model (the name/definition is %s) but was accepted" % (
                    i, gen.cmd_text(c)[:200], "still visible" if "duplicate" in what else "popped")))
                break
            if res is not None:
                res.inc("predictions_confirmed_" + want)
        elif want == "error-if-unsat":
            if state == "unsat" and not err:
                bad.append((i, "popped-name-referenced", "get-interpolants", "get-interpolants referring to a popped name was accepted: %s -> %s" % (gen.cmd_text(c), r[:200])))
                break
        elif vis is not None and not err:
            if k == "get-unsat-core" and state == "unsat":
                try:
                    names = [sexpr.unquote(x) for x in outputs.parse_core(r) if isinstance(x, str)]
                except outputs.OutputError:
                    continue
                if res is not None:
                    res.evals += 1
                extra = [n for n in names if n not in vis]
                if extra:
                    bad.append((i, "printed-name-not-visible", "unsat-core", "unsat core prints %s; visible names are %s" % (extra, vis)))
                    break
                if res is not None:
                    res.inc("core_name_sets_checked")
            elif k == "get-assignment" and state == "sat":
                try:
                    names = [n for n, _ in outputs.parse_assignment(r)]
                except outputs.OutputError:
                    continue
                if res is not None:
                    res.evals += 1
                if sorted(set(names)) != sorted(set(vis)) or len(names) != len(set(names)):
                    bad.append((i, "assignment-names-differ", "get-assignment", "get-assignment prints names %s; the visible named terms are %s" % (sorted(names), vis)))
                    break
                if res is not None:
                    res.inc("assignment_name_sets_checked")
    return bad, run


def case(seed):
    res = CaseResult()
    cmds, exp, global_mode, kind = build(seed)
    bad, run = judge(cmds, exp, res)
    res.inc("mode_global" if global_mode else "mode_scoped")
    res.inc("kind_" + kind)
    res.inc("pops", sum(1 for c in cmds if c["k"] == "pop"))
    if run.crashed():
        res.inc("crash_seen_(C18)")
    if not bad and res.evals:
        res.dkeys.append(h(gen.render(cmds, markers=False)))
    if seed % 47 == 0:
        res.sample = {"script": gen.render(cmds, markers=False)[:1800], "global": global_mode}
    for b in bad[:1]:
        i = b[0]
        # cut the history after the diverging command, then drop commands that do not matter
        cut_c, cut_e = cmds[:i + 1], exp[:i + 1]

        def pred(cand):
            # expectations are positional: rebuild them by identity of command objects
            e2 = [cut_e[next(j for j, c in enumerate(cut_c) if c is x)] for x in cand]
            bb, _ = judge(cand, e2)
            return any(y[1] == b[1] and y[2] == b[2] for y in bb)
        small = sr.shrink(cut_c, pred, budget=50)
        e2 = [cut_e[next(j for j, c in enumerate(cut_c) if c is x)] for x in small]
        bb, _ = judge(small, e2)
        if not any(y[1] == b[1] and y[2] == b[2] for y in bb):
            small, e2, bb = cut_c, cut_e, [b]
        bb = [y for y in bb if y[1] == b[1]] or [b]
        site = "%s:%s" % (bb[0][2], "global" if global_mode else "scoped")
        res.viol.append(Violation(b[1], site, "%s\n--- script ---\n%s" % (bb[0][3], gen.render(small, markers=False)),
                                  dict(sr.witness(small, prop="C21"), exp=[list(x) if isinstance(x, tuple) else x for x in e2],
                                       global_mode=global_mode)))
    return res


def replay(prop):
    def f(w):
        cmds = sr.cmds_from_witness(w)
        exp = [tuple(x) if isinstance(x, list) else x for x in w["exp"]]
        bad, _ = judge(cmds, exp)
        return [Violation(b[1], "%s:%s" % (b[2], "global" if w.get("global_mode") else "scoped"), "replayed: " + b[3][:300], w) for b in bad[:1]]
    return f


def main(prop, tier):
    camp = Campaign(prop, tier)
    n = N_QUICK if tier == "quick" else N_THOROUGH
    n = int(__import__("os").environ.get("VERIF_CASES", n))
    base = camp.seed * 1000003 + 21000
    camp.rule = ("push/pop histories (18-45 commands) with top-level and nested :named terms, define-funs, re-introduction of "
                 "visible names/definitions (must be rejected) and of popped ones (must be accepted), uses of visible and popped "
                 "definitions, get-unsat-core / get-assignment / get-interpolants-by-popped-name, in scoped and "
                 ":global-declarations mode; a reference scope model (stack of dictionaries) predicts acceptance of every "
                 "command and the set of names that may be printed; distinct_nontrivial = histories without divergence")
    camp.assumptions = ["reference scope model = SMT-LIB scoping rules as stated in the property"]
    camp.run(case, [base + i for i in range(n)])
    return camp.finish(replay_fn=replay(prop), min_evals=n)
