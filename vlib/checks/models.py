"""C03: models / values / assignments printed after sat are judged against the recorded assertions."""
import random

from .. import gen, refs, configs, scriptrun as sr, outputs
from ..core import Campaign, CaseResult, Violation, h
from ..terms import to_smt, T

N_QUICK = 1000
N_THOROUGH = 20000


def build(seed):
    rng = random.Random(seed * 37 + 9)
    logic = gen.MODEL_LOGICS[seed % len(gen.MODEL_LOGICS)]
    g = gen.ScriptGen(seed, logic=logic, opts={"boundary": 0.06, "named": 0.04, "divmod": 0.15, "ite": 0.2})
    want = [":produce-models"]
    if rng.random() < 0.5:
        want.append(":produce-assignments")
    options = configs.random_config(rng, engines=("cdcl", "cdcl", "cdcl", "lookahead", "picky", "ghost"),
                                    allow_nonincremental=True, want=want)
    incremental = not configs.has(options, ":incremental", "false")
    assign = configs.has(options, ":produce-assignments")

    def qf(r, names):
        out = [{"k": "get-model"}]
        terms = [g.tg.term(s, r.choice([0, 1, 2])) for s in
                 (["Bool"] + list(gen.LOGICS[logic]["arith"]) + list(g.sig.sorts)) for _ in range(r.choice([1, 1, 2]))
                 if g.sig.consts.get(s)]
        terms = [t for t in terms if t is not None]
        if terms:
            out.append({"k": "get-value", "terms": terms})
        if assign:
            out.append({"k": "get-assignment"})
        if r.random() < 0.3:
            out.append({"k": "get-model"})
        return out

    cmds = g.header(options)
    keep_named = g.tg.o["named"]
    if incremental and rng.random() < 0.6:
        cmds += g.history(rng.randint(6, 18), p={"assert_": 0.4, "check": 0.28}, query_fn=qf,
                          name_p=0.35 if assign else 0.05)
    else:
        for _ in range(rng.randint(1, 5)):
            cmds.append(g.assertion(named=g.tg.fresh_name() if (assign and rng.random() < 0.5) else None))
        cmds.append({"k": "check-sat"})
        cmds += qf(rng, [])
    g.tg.o["named"] = keep_named
    return cmds


def errkind(r):
    import re
    m = re.search(r'\(error "([^"`\']*)', r)
    return re.sub(r"[^A-Za-z]+", "-", m.group(1).strip())[:40] if m else "err"


GENERIC_SITE = ("malformed-assignment", "assignment-unknown", "model-refused", "value-refused", "malformed-model",
                "malformed-values")


def site_for(cls, cmds):
    """Classes whose symptom does not depend on the logic get a logic-independent site."""
    if cls.split(":")[0] in GENERIC_SITE:
        return "any"
    return sr.site_of(cmds)


def confirm_unsat(text):
    """The closed problem (definitions + assertions) has no model according to two references."""
    q = refs.quick(text)
    if q == "sat":
        return "ok"
    if q != "unsat":
        return "inconclusive:" + q
    c = refs.cvc5(text)
    if c == "unsat":
        return "violated"
    if c == "sat":
        return "inconclusive:disagree"
    z = refs.z3old(text)
    return "violated" if z == "unsat" else "inconclusive:" + c


def confirm_valid(text):
    """`text` asserts the negation of the claim; claim holds iff unsat."""
    q = refs.quick(text)
    if q == "unsat":
        return "ok"
    if q != "sat":
        return "inconclusive:" + q
    c = refs.cvc5(text)
    if c == "sat":
        return "violated"
    if c == "unsat":
        return "inconclusive:disagree"
    z = refs.z3old(text)
    return "violated" if z == "sat" else "inconclusive:" + c


def check_model_response(cmds, m, text):
    """-> (verdict, detail, model) for one get-model response under stack model m."""
    try:
        model = outputs.parse_model(text)
    except outputs.OutputError as e:
        return "violated", "malformed-model", "model not parseable: %s\n%s" % (e, text[:400]), None
    declared = {c["name"]: (tuple(c["args"]), c["ret"]) for c in cmds if c["k"] == "declare-fun"}
    got = {d["name"]: (tuple(s for _, s in d["params"]), d["ret"]) for d in model}
    for n, sig in declared.items():
        if n not in got:
            return "violated", "model-missing-symbol", "declared symbol %s has no definition in the model" % n, model
        if got[n] != sig:
            return "violated", "model-wrong-signature", "symbol %s: declared %s, model %s" % (n, sig, got[n]), model
    asserts = ["(assert %s)" % to_smt(t, "ref") for t in m.assertions()]
    defs = [gen.cmd_text(c, "ref") for c in m.defs().values()]
    text_ref = outputs.model_problem(cmds, model, defs + asserts)
    v = confirm_unsat(text_ref)
    if v == "violated":
        return "violated", "model-falsifies-assertion", "the printed model does not satisfy the current assertions\n" + text_ref, model
    if v != "ok":
        return v, "", text_ref if "error" in v else "", model
    return "ok", "", "", model


def judge(cmds, res=None):
    run, resp, last = sr.execute(cmds, cpu_s=6)
    bad = []

    def note(v):
        if res is not None and v.startswith("inconclusive"):
            res.inconclusive += 1
            res.inc(v.replace(":", "_")[:40])
    state = None       # answer of the last check-sat (reset by assert/push/pop)
    model = None
    has_models = configs.has(sr.option_state(cmds)["options"], ":produce-models")
    for i, c, r, m in sr.walk(cmds, resp, last):
        k = c["k"]
        if k in ("assert", "push", "pop", "define-fun"):
            state, model = None, None
        elif k == "check-sat":
            state, model = sr.answer_of(r), None
        elif state == "sat" and k in ("get-model", "get-value") and not has_models:
            continue
        elif state == "sat" and k == "get-model":
            if res is not None:
                res.evals += 1
            if sr.is_error(r):
                bad.append((i, "model-refused:" + errkind(r), "get-model after sat answered: %s" % r[:200]))
                continue
            v, cls, detail, model = check_model_response(cmds, m, r)
            note(v)
            if v == "violated":
                bad.append((i, cls, detail))
                model = None
            elif v == "ok" and res is not None:
                res.inc("models_validated")
        elif state == "sat" and k == "get-value":
            if res is not None:
                res.evals += 1
            if sr.is_error(r):
                bad.append((i, "value-refused:" + errkind(r), "get-value after sat answered: %s" % r[:200]))
                continue
            try:
                vals = outputs.parse_value_response(r, len(c["terms"]))
            except outputs.OutputError as e:
                bad.append((i, "malformed-values", "%s\n%s" % (e, r[:300])))
                continue
            if model is None:
                continue
            terms = c["terms"]

            def neg(ctx, terms=terms, vals=vals):
                eqs = " ".join("(= %s %s)" % (to_smt(t, "ref"), outputs.value_to_ref(v, t.sort, ctx)) for t, v in zip(terms, vals))
                return "(assert (not (and true %s)))" % eqs
            defs = [gen.cmd_text(d, "ref") for d in m.defs().values()]
            text_ref = outputs.model_problem(cmds, model, defs + [neg])
            v = confirm_valid(text_ref)
            note(v)
            if v == "violated":
                bad.append((i, "value-differs-from-model", "get-value disagrees with the model printed for the same state\n" + text_ref))
            elif v == "ok" and res is not None:
                res.inc("values_validated", len(vals))
        elif state == "sat" and k == "get-assignment":
            if res is not None:
                res.evals += 1
            if sr.is_error(r):
                continue     # option not set: legitimately refused
            try:
                asg = outputs.parse_assignment(r)
            except outputs.OutputError as e:
                bad.append((i, "malformed-assignment", "%s\n%s" % (e, r[:300])))
                continue
            names = m.names()
            unk = [n for n, b in asg if b not in ("true", "false") and n in names and names[n].sort == "Bool"]
            if unk:
                bad.append((i, "assignment-unknown", "named Boolean term(s) %s reported as %s" % (
                    unk, [b for n, b in asg if n in unk])))
                continue
            if model is None:
                continue
            pairs = [(names[n], b) for n, b in asg if n in names and b in ("true", "false")]
            if not pairs:
                continue
            eqs = " ".join("(= %s %s)" % (to_smt(t, "ref"), b) for t, b in pairs)
            defs = [gen.cmd_text(d, "ref") for d in m.defs().values()]
            text_ref = outputs.model_problem(cmds, model, defs + ["(assert (not (and true %s)))" % eqs])
            v = confirm_valid(text_ref)
            note(v)
            if v == "violated":
                bad.append((i, "assignment-differs-from-model", "get-assignment disagrees with the printed model\n" + text_ref))
            elif v == "ok" and res is not None:
                res.inc("assignments_validated", len(pairs))
    return bad, run


def case(seed):
    res = CaseResult()
    cmds = build(seed)
    bad, run = judge(cmds, res)
    st = sr.option_state(cmds)
    res.inc("logic_" + sr.logic_of(cmds))
    res.inc("engine_" + configs.engine_of(st["options"]))
    if not st["incremental"]:
        res.inc("nonincremental")
    if run.timeout:
        res.inc("timeout")
    if run.crashed():
        res.inc("crash_seen_(C18)")
    if res.feat.get("models_validated"):
        res.dkeys.append(h(gen.render(cmds, markers=False)))
    if seed % 61 == 0:
        res.sample = {"script": gen.render(cmds, markers=False)[:1500], "stdout": run.out[:600]}
    seen = set()
    for b in bad:
        cls = b[1]
        if cls in seen:
            continue
        seen.add(cls)

        from ..core import is_known
        if is_known("C03", cls, site_for(cls, cmds)):
            res.viol.append(Violation(cls, site_for(cls, cmds), "%s (command #%d, not minimised: matches a known finding)\n%s" % (
                cls, b[0], b[2][:600]), sr.witness(cmds, prop="C03")))
            continue

        def pred(cand, cls=cls):
            bb, _ = judge(cand)
            return any(x[1] == cls for x in bb)
        small = sr.shrink(cmds, pred, budget=40)
        bb, _ = judge(small)
        bb = [x for x in bb if x[1] == cls]
        if not bb:
            small, bb = cmds, [b]
        res.viol.append(Violation(cls, site_for(cls, small), "%s (command #%d)\n%s\n--- script ---\n%s" % (
            cls, bb[0][0], bb[0][2][:1500], gen.render(small, markers=False)), sr.witness(small, prop="C03")))
    return res


def replay(prop):
    def f(w):
        cmds = sr.cmds_from_witness(w)
        bad, _ = judge(cmds)
        out, seen = [], set()
        for b in bad:
            if b[1] not in seen:
                seen.add(b[1])
                out.append(Violation(b[1], site_for(b[1], cmds), "replayed: " + b[2][:300], w))
        return out
    return f


def main(prop, tier):
    camp = Campaign(prop, tier)
    n = N_QUICK if tier == "quick" else N_THOROUGH
    n = int(__import__("os").environ.get("VERIF_CASES", n))     # experiments only
    base = camp.seed * 1000003 + 3000
    camp.rule = ("sat-biased scripts in the 10 model-producing logics (UF incl. Bool/numeric arguments, strict "
                 "inequalities, div/mod, ite, :incremental false, substitutions on/off, all engines, histories); after each "
                 "sat: get-model must define every declared symbol with its signature and definitions+current assertions "
                 "must be satisfiable (z3, confirmed by cvc5); get-value pairs must be valid under that model; "
                 "get-assignment truth values must equal the named terms' values under it; "
                 "distinct_nontrivial = distinct scripts with >=1 validated model")
    camp.assumptions = ["ground evaluation of definitions by z3 5.1 and cvc5 1.0.3", "array logics excluded as in the statement"]
    camp.run(case, [base + i for i in range(n)])
    return camp.finish(replay_fn=replay(prop), min_evals=n // 2)
