"""Trace-based monitors over the hook event log (OSMT_VERIF_TRACE):
C11 theory clauses T-valid, C12 learnt/derived clauses RUP, C13 preprocessing roots vs assertions,
C26 Farkas certificates."""
import glob
import os
import random
import re
import tempfile
from fractions import Fraction

from .. import gen, refs, configs, scriptrun as sr, osmt, build, sexpr, outputs
from ..core import Campaign, CaseResult, Violation, h
from . import answers

N_QUICK = {"C11": 1600, "C12": 1200, "C13": 1280, "C26": 1000}
N_THOROUGH = {"C11": 16000, "C12": 16000, "C13": 20000, "C26": 16000}
CORPUS = os.path.join(build.REPO, "test", "regression")


# --------------------------------------------------------------------------- workload

def corpus_files(maxsize=5000):
    fs = sorted(glob.glob(os.path.join(CORPUS, "**", "*.smt2"), recursive=True))
    return [f for f in fs if os.path.getsize(f) < maxsize]


THEORY_LOGICS = ["QF_UF", "QF_LRA", "QF_LIA", "QF_RDL", "QF_IDL", "QF_UFLRA", "QF_UFLIA", "QF_AX", "QF_ALIA",
                 "QF_ALRA", "QF_AUFLIA", "QF_UFIDL", "QF_UFRDL", "QF_AUFLRA", "ALL"]
LA_LOGICS = ["QF_LRA", "QF_LIA", "QF_UFLRA", "QF_UFLIA", "QF_LRA", "QF_LIA", "QF_ALIA", "QF_ALRA", "QF_AUFLIA"]


def build_script(seed, prop):
    """Generated script text (theory-heavy) or a regression corpus file (every 4th case)."""
    rng = random.Random(seed * 73 + 11)
    if seed % 4 == 3:
        files = corpus_files()
        f = files[(seed // 4) % len(files)]
        text = open(f, errors="replace").read()
        if "(exit)" in text and prop == "C13":
            pass
        return text, "corpus:" + os.path.relpath(f, CORPUS)
    logics = LA_LOGICS if prop == "C26" else THEORY_LOGICS
    if prop == "C13":
        logics = THEORY_LOGICS + ["QF_UF", "QF_UF", "QF_UF_prop"]
    logic = logics[seed % len(logics)]
    opts = {"boundary": 0.04, "max_const": 3, "ite": 0.15, "divmod": 0.12, "distinct": 0.1, "let": 0.03}
    if prop == "C13":
        opts.update({"ite": 0.25, "divmod": 0.2, "distinct": 0.15, "diamond": 0.35})
    g = gen.ScriptGen(seed, logic=logic, opts=opts)
    eng = ("cdcl", "cdcl", "cdcl", "lookahead", "picky") if prop != "C13" else ("cdcl",)
    options = configs.random_config(rng, engines=eng, allow_nonincremental=(prop in ("C12", "C13")))
    if prop == "C12" and rng.random() < 0.5:
        options = [o for o in options if o[0] != ":restart-first"] + [(":restart-first", "2")]
    if prop == "C13" and rng.random() < 0.5:
        # whole-frame preprocessing (substitutions, learnt transitivity) only runs without tracking options
        options = [o for o in options if not o[0].startswith(":produce-")]
    incremental = not configs.has(options, ":incremental", "false")
    cmds = g.header(options)
    if prop in ("C13", "C11", "C12") and logic == "QF_UF" and rng.random() < 0.75:
        body = g.diamond_script()
        if incremental and rng.random() < 0.4:
            body = [{"k": "push", "n": 1}] + body + [{"k": "check-sat"}, {"k": "pop", "n": 1}] + g.diamond_script()
        cmds += body + [{"k": "check-sat"}]
    elif incremental and rng.random() < 0.6:
        cmds += g.history(rng.randint(8, 22), p={"assert_": 0.55, "check": 0.2})
    else:
        # many atoms over few variables: theory-heavy search
        for _ in range(rng.randint(3, 10)):
            cmds.append(g.assertion(depth=rng.choice([2, 2, 3])))
        cmds.append({"k": "check-sat"})
    return gen.render(cmds, markers=False), "gen:" + logic


def run_traced(text, cpu_s=8):
    d = osmt.scratch_dir("traces")
    fd, tpath = tempfile.mkstemp(suffix=".trace", dir=d)
    os.close(fd)
    try:
        run = osmt.run_opensmt(text, flavour="rel", cpu_s=cpu_s, env={"OSMT_VERIF_TRACE": tpath})
        with open(tpath, errors="replace") as f:
            trace = f.read()
        # a run that hit its CPU limit (or died) may leave a cut last line: an incomplete event is not an event
        if trace and not trace.endswith("\n"):
            trace = trace[:trace.rfind("\n") + 1]
    finally:
        try:
            os.remove(tpath)
        except OSError:
            pass
    return run, trace


# --------------------------------------------------------------------------- trace parsing

class SolverTrace:
    def __init__(self, sid):
        self.sid = sid
        self.decls = []          # (symbol token, [argsort strs], retsort str)
        self.events = []         # ordered (kind, payload)


def parse_trace(text):
    solvers = {}
    decls = []                   # declarations are per Logic, shared by nested solvers
    for line in text.split("\n"):
        if not line:
            continue
        parts = line.split(" ", 2)
        tag = parts[0]
        try:
            sid = int(parts[1])
        except (IndexError, ValueError):
            continue
        st = solvers.setdefault(sid, SolverTrace(sid))
        rest = parts[2] if len(parts) > 2 else ""
        if tag == "D":
            try:
                name, args, ret = rest.split(" | ") if rest.count(" | ") == 2 else (rest.split(" |")[0], rest.split("|")[1].strip(), rest.split("| ")[-1])
            except Exception:
                continue
            decls.append((name.strip(), args.strip(), ret.strip()))
        elif tag in ("A", "R"):
            fr, term = rest.split(" ", 1)
            st.events.append((tag, (int(fr), term)))
        elif tag == "PUSH":
            st.events.append(("PUSH", int(rest)))
        elif tag == "POP":
            st.events.append(("POP", None))
        elif tag == "CHK":
            f = rest.split()
            st.events.append(("CHK", (f[0], [int(x) for x in f[1:]])))
        elif tag == "c":
            f = rest.split()
            lits = [int(x) for x in f[1:]]
            if lits and lits[-1] == 0:
                lits = lits[:-1]
            st.events.append(("c", (f[0], lits)))
        elif tag == "T":
            kind, terms = rest.split(" ", 1) if " " in rest else (rest, "")
            st.events.append(("T", (kind, terms)))
        elif tag == "F":
            st.events.append(("F", rest))
    return solvers, decls


BUILTIN_SORTS = {"Bool", "Int", "Real", "Array"}


def ref_header(decls, ctx):
    """declare-sort / declare-fun lines for the traced declarations (internal symbols renamed)."""
    sorts = set()
    lines = []
    seen = set()
    for name, args, ret in decls:
        if name in seen:
            continue
        seen.add(name)
        for tok in sexpr.tokenize(args + " " + ret):
            if tok not in ("(", ")") and tok not in BUILTIN_SORTS:
                sorts.add(tok)
        n = outputs.term_to_ref(name, ctx)
        lines.append("(declare-fun %s (%s) %s)" % (n, args, ret))
    return ["(declare-sort %s 0)" % s for s in sorted(sorts)] + lines


def to_ref(term_text, ctx):
    return outputs.term_to_ref(sexpr.parse_one(term_text), ctx)


def split_terms(text):
    return sexpr.parse_all(text)


def decide_unsat(lines):
    """'unsat' (claim holds), 'sat' (confirmed by two references), 'inconclusive'."""
    text = "\n".join(lines) + "\n(check-sat)\n"
    q = refs.quick(text)
    if q == "unsat":
        return "unsat"
    if q != "sat":
        return "inconclusive"
    c = refs.cvc5("(set-logic ALL)\n" + text)
    if c == "sat":
        return "sat"
    if c == "unsat":
        return "inconclusive"
    z = refs.z3old(text)
    return "sat" if z == "sat" else "inconclusive"


# --------------------------------------------------------------------------- C11

def c11_check(solvers, decls, res, budget=400):
    bad = []
    ctx = outputs.RefCtx()
    header = None
    seen = set()
    n = 0
    for sid, st in sorted(solvers.items()):
        for kind, payload in st.events:
            if kind != "T":
                continue
            tk, terms = payload
            key = terms
            if key in seen:
                continue
            seen.add(key)
            n += 1
            if n > budget:
                res.inc("theory_clauses_skipped_budget")
                continue
            try:
                lits = [outputs.term_to_ref(t, ctx) for t in split_terms(terms)]
            except sexpr.SexprError:
                if len(terms) > 50000:
                    # terms are printed as trees: a line of megabytes can be cut by the CPU limit of the run.  Not a verdict.
                    res.inconclusive += 1
                    res.inc("oversized_theory_clause_skipped")
                else:
                    bad.append(("malformed-trace", tk, terms[:200]))
                continue
            header = ref_header(decls, ctx)
            body = "(assert (not (or false %s)))" % " ".join(lits)
            v = decide_unsat(header + ctx.decls() + [body])
            res.evals += 1
            res.inc("tclause_" + tk)
            if v == "sat":
                bad.append(("theory-clause-not-valid", tk, "theory clause (%s) is not T-valid:\n(or %s)" % (tk, " ".join(lits)[:1500])))
            elif v == "inconclusive":
                res.inconclusive += 1
            else:
                res.dkeys.append(h(key))
    return bad


# --------------------------------------------------------------------------- C12

def unit_propagate(db, assumed):
    """db: list of clauses (lists of ints). assumed: iterable of literals set true.
    Returns True if a conflict is reached by unit propagation."""
    val = {}
    for l in assumed:
        if val.get(-l):
            return True
        val[l] = True
    changed = True
    while changed:
        changed = False
        for cl in db:
            unassigned = None
            nun = 0
            sat = False
            for l in cl:
                if val.get(l):
                    sat = True
                    break
                if not val.get(-l):
                    nun += 1
                    unassigned = l
                    if nun > 1:
                        break
            if sat or nun > 1:
                continue
            if nun == 0:
                return True
            val[unassigned] = True
            changed = True
    return False


def c12_check(solvers, res, budget=250):
    bad = []
    for sid, st in sorted(solvers.items()):
        db = []
        assumptions = None
        checked = 0
        for kind, payload in st.events:
            if kind == "c":
                ck, lits = payload
                if ck in ("i", "t"):
                    db.append(lits)
                elif ck in ("l", "e", "s"):
                    if checked < budget:
                        checked += 1
                        res.evals += 1
                        res.inc("derived_" + ck)
                        if not unit_propagate(db, [-l for l in lits]):
                            bad.append(("not-rup", ck, "solver %d: derived clause (%s) %s is not confirmed by reverse unit propagation over the %d clauses known at that moment" % (
                                sid, ck, lits, len(db))))
                        else:
                            res.dkeys.append(h("%d:%s:%s" % (sid, ck, lits)))
                    else:
                        res.inc("derived_skipped_budget")
                    db.append(lits)
                elif ck == "a":
                    assumptions = lits
            elif kind == "CHK":
                ans, frames = payload
                if ans == "unsat" and assumptions is not None:
                    res.evals += 1
                    if not unit_propagate(db, assumptions):
                        bad.append(("unsat-not-justified", "final", "solver %d: answer unsat but unit propagation of the assumptions %s over all %d known clauses gives no conflict" % (
                            sid, assumptions, len(db))))
                    else:
                        res.inc("unsat_answers_justified")
                assumptions = None
    return bad


# --------------------------------------------------------------------------- C13

def c13_check(solvers, decls, res):
    bad = []
    for sid, st in sorted(solvers.items()):
        asserts = {}     # frame -> [term text]
        roots = {}
        for kind, payload in st.events:
            if kind == "A":
                asserts.setdefault(payload[0], []).append(payload[1])
            elif kind == "R":
                roots.setdefault(payload[0], []).append(payload[1])
            elif kind == "CHK":
                ans, frames = payload
                A = [t for f in frames for t in asserts.get(f, [])]
                P = [t for f in frames for t in roots.get(f, [])]
                if not A:
                    continue
                ctx = outputs.RefCtx()
                try:
                    At = [to_ref(t, ctx) for t in A]
                    Pt = [to_ref(t, ctx) for t in P]
                except sexpr.SexprError:
                    bad.append(("malformed-trace", "term", str(A)[:200]))
                    continue
                header = ref_header(decls, ctx) + ctx.decls()
                res.evals += 1
                # (1) every assignment satisfying the roots satisfies the assertions
                v1 = decide_unsat(header + ["(assert %s)" % p for p in Pt] + ["(assert (not (and true %s)))" % " ".join(At)])
                if v1 == "sat":
                    bad.append(("roots-do-not-imply-assertions", "weaker", "an assignment satisfies the preprocessed roots but not the asserted formulas\nassertions: %s\nroots: %s" % (
                        "\n  ".join(A)[:1500], "\n  ".join(P)[:1500])))
                    continue
                # (2) satisfiable assertions => satisfiable roots
                qa = refs.quick("\n".join(header + ["(assert %s)" % a for a in At]) + "\n")
                if qa == "sat":
                    v2 = decide_unsat(header + ["(assert %s)" % p for p in Pt])
                    # decide_unsat returns 'unsat' if roots unsat (z3) -> confirm with cvc5
                    if v2 == "unsat":
                        txt = "\n".join(header + ["(assert %s)" % p for p in Pt]) + "\n(check-sat)\n"
                        c = refs.cvc5("(set-logic ALL)\n" + txt)
                        ca = refs.cvc5("(set-logic ALL)\n" + "\n".join(header + ["(assert %s)" % a for a in At]) + "\n(check-sat)\n")
                        if c == "unsat" and ca == "sat":
                            bad.append(("roots-unsat-assertions-sat", "stronger", "the asserted formulas are satisfiable but the preprocessed roots are not\nassertions: %s\nroots: %s" % (
                                "\n  ".join(A)[:1500], "\n  ".join(P)[:1500])))
                            continue
                        res.inconclusive += 1
                        continue
                if v1 == "inconclusive":
                    res.inconclusive += 1
                else:
                    res.dkeys.append(h(str(A) + str(P)))
                    res.inc("checks_validated")
                    if any(a != p for a, p in zip(A, P)) or len(A) != len(P):
                        res.inc("checks_where_roots_differ_from_assertions")
    return bad


# --------------------------------------------------------------------------- C26

class NotLinear(Exception):
    pass


def lin(x):
    """sexpr -> ({key: coeff}, const) with non-arithmetic sub-terms as opaque keys."""
    v = outputs.parse_number(x)
    if v is not None:
        return {}, v
    if isinstance(x, str):
        return {x: Fraction(1)}, Fraction(0)
    op = x[0]
    if op == "+":
        acc, c = {}, Fraction(0)
        for a in x[1:]:
            m, k = lin(a)
            c += k
            for kk, vv in m.items():
                acc[kk] = acc.get(kk, 0) + vv
        return acc, c
    if op == "-" and len(x) == 2:
        m, k = lin(x[1])
        return {kk: -vv for kk, vv in m.items()}, -k
    if op == "-" and len(x) > 2:
        acc, c = lin(x[1])
        acc = dict(acc)
        for a in x[2:]:
            m, k = lin(a)
            c -= k
            for kk, vv in m.items():
                acc[kk] = acc.get(kk, 0) - vv
        return acc, c
    if op == "*" and len(x) == 3:
        m1, k1 = lin(x[1])
        m2, k2 = lin(x[2])
        if not m1:
            return {kk: vv * k1 for kk, vv in m2.items()}, k1 * k2
        if not m2:
            return {kk: vv * k2 for kk, vv in m1.items()}, k1 * k2
        raise NotLinear(sexpr.dump(x))
    if op in ("/",) and len(x) == 3:
        m2, k2 = lin(x[2])
        if not m2 and k2 != 0:
            m1, k1 = lin(x[1])
            return {kk: vv / k2 for kk, vv in m1.items()}, k1 / k2
        raise NotLinear(sexpr.dump(x))
    return {sexpr.dump(x): Fraction(1)}, Fraction(0)


def int_sorted(keys, sortof):
    """True/False/None (unknown) whether the atom is over Int."""
    kinds = set()
    for k in keys:
        head = k
        if k.startswith("("):
            toks = list(sexpr.tokenize(k))
            head = toks[1] if len(toks) > 1 else k
        s = sortof.get(head)
        if s in ("Int", "Real"):
            kinds.add(s)
        else:
            return None
    if kinds == {"Int"}:
        return True
    if kinds == {"Real"}:
        return False
    return None


def farkas_ok(items, is_int):
    """items: (coeff, positive?, atom sexpr). Returns (ok, reason)."""
    total, const = {}, Fraction(0)
    strict = False
    for coeff, pos, atom in items:
        if coeff <= 0:
            return False, "coefficient %s is not positive" % coeff
        if not (isinstance(atom, list) and len(atom) == 3 and atom[0] == "<="):
            return None, "atom is not in (<= c poly) form: %s" % sexpr.dump(atom)[:100]
        c = outputs.parse_number(atom[1])
        if c is None:
            return None, "atom constant not numeric"
        m, k = lin(atom[2])
        # positive literal:  poly + k - c >= 0 ; negative: c - poly - k > 0  (Int: c - 1 - poly - k >= 0)
        if pos:
            em, ek = m, k - c
        else:
            em = {kk: -vv for kk, vv in m.items()}
            if is_int:
                ek = c - 1 - k
            else:
                ek = c - k
                strict = True
        for kk, vv in em.items():
            total[kk] = total.get(kk, 0) + coeff * vv
        const += coeff * ek
    left = {kk: vv for kk, vv in total.items() if vv != 0}
    if left:
        return False, "variables do not cancel: %s" % dict(list(left.items())[:4])
    if strict:
        return (const <= 0), "weighted sum gives %s > 0 which is not contradictory" % const
    return (const < 0), "weighted sum gives %s >= 0 which is not contradictory" % const


def c26_check(solvers, decls, res, budget=600):
    bad = []
    sortof = {}
    for name, args, ret in decls:
        sortof[name] = ret
    seen = set()
    n = 0
    for sid, st in sorted(solvers.items()):
        for kind, payload in st.events:
            if kind != "F":
                continue
            if payload in seen:
                continue
            seen.add(payload)
            n += 1
            if n > budget:
                res.inc("certificates_skipped_budget")
                continue
            m = re.match(r"(\d+) (.*)$", payload)
            if not m:
                continue
            items = []
            okparse = True
            for grp in re.findall(r"\{ (\S+) ([+-]) (.*?) \}(?= \{|$)", m.group(2)):
                try:
                    items.append((Fraction(grp[0]), grp[1] == "+", sexpr.parse_one(grp[2])))
                except Exception:
                    okparse = False
            if not okparse or len(items) != int(m.group(1)):
                bad.append(("malformed-trace", "farkas", payload[:300]))
                continue
            res.evals += 1
            keys = set()
            try:
                for _, _, atom in items:
                    if isinstance(atom, list) and len(atom) == 3:
                        keys |= set(lin(atom[2])[0].keys())
                isint = int_sorted(keys, sortof)
                if isint is None:
                    r1, why1 = farkas_ok(items, True)
                    r2, why2 = farkas_ok(items, False)
                    ok, why = (True, "") if (r1 or r2) else ((None, why1) if r1 is None else (False, why1 + " / " + why2))
                else:
                    ok, why = farkas_ok(items, isint)
            except NotLinear as e:
                ok, why = None, "non-linear sub-term %s" % e
            if ok is None:
                res.inconclusive += 1
                res.inc("certificates_not_interpretable")
            elif not ok:
                bad.append(("farkas-certificate-invalid", "int" if isint else "real", "%s\ncertificate: %s" % (why, payload[:1500])))
            else:
                res.inc("certificates_valid")
                res.inc("certificate_size_%d" % min(len(items), 6))
                res.dkeys.append(h(payload))
    return bad


# --------------------------------------------------------------------------- driver

def analyse(prop, text, res):
    run, trace = run_traced(text)
    if run.timeout:
        res.inc("timeout")
    if run.crashed():
        res.inc("crash_seen_(C18)")
        return [], run
    solvers, decls = parse_trace(trace)
    res.inc("trace_events", sum(len(s.events) for s in solvers.values()))
    if prop == "C11":
        return c11_check(solvers, decls, res), run
    if prop == "C12":
        return c12_check(solvers, res), run
    if prop == "C13":
        return c13_check(solvers, decls, res), run
    if prop == "C26":
        return c26_check(solvers, decls, res), run
    return [], run


def shrink_text(prop, text, cls):
    """Line-based shrinking of a script while a violation of the same class remains."""
    lines = text.split("\n")
    calls = 0
    i = len(lines) - 1
    while i >= 0 and calls < 40:
        if lines[i].startswith("(assert") or lines[i].startswith("(push") or lines[i].startswith("(pop") or \
                lines[i].startswith("(check-sat") or lines[i].startswith("(set-option") or lines[i].startswith("(define-fun"):
            cand = "\n".join(lines[:i] + lines[i + 1:])
            calls += 1
            r = CaseResult()
            try:
                b, _ = analyse(prop, cand, r)
            except Exception:
                b = []
            if any(x[0] == cls for x in b):
                lines = lines[:i] + lines[i + 1:]
        i -= 1
    return "\n".join(lines)


def case(param):
    seed, prop = param
    res = CaseResult()
    text, origin = build_script(seed, prop)
    bad, run = analyse(prop, text, res)
    res.inc("origin_" + origin.split(":")[0])
    if origin.startswith("gen:"):
        res.inc("logic_" + origin[4:])
    if seed % 67 == 0:
        res.sample = {"origin": origin, "script_head": text[:700], "evaluations": res.evals}
    seen = set()
    for b in bad:
        cls = b[0]
        if cls in seen:
            continue
        seen.add(cls)
        small = shrink_text(prop, text, cls) if len(text) < 6000 else text
        r2 = CaseResult()
        b2, _ = analyse(prop, small, r2)
        b2 = [x for x in b2 if x[0] == cls]
        if not b2:
            small, b2 = text, [b]
        lg = re.search(r"\(set-logic ([A-Z_a-z]+)\)", small)
        res.viol.append(Violation(cls, "%s:%s" % (lg.group(1) if lg else "?", b2[0][1]),
                                  "%s\n--- script ---\n%s" % (b2[0][2][:2500], small[:3000]), {"text": small, "prop": prop}))
    return res


def replay(prop):
    def f(w):
        r = CaseResult()
        bad, _ = analyse(prop, w["text"], r)
        lg = re.search(r"\(set-logic ([A-Z_a-z]+)\)", w["text"])
        out, seen = [], set()
        for b in bad:
            if b[0] not in seen:
                seen.add(b[0])
                out.append(Violation(b[0], "%s:%s" % (lg.group(1) if lg else "?", b[1]), "replayed: " + b[2][:400], w))
        return out
    return f


RULES = {
    "C11": "every distinct theory clause recorded by the hooks (conflict explanations, propagation reasons, split clauses, "
           "root-level deductions/conflicts with the level-0 trail they rest on) is given to z3 as (not clause) and must be "
           "unsat in the background theory, a 'sat' must be confirmed by cvc5; workload: theory-heavy generated scripts in 15 "
           "logics x engines + regression corpus; distinct_nontrivial = distinct clauses shown valid",
    "C12": "the recorded clause stream (input, theory, learnt, eliminated, strengthened, assumptions) is replayed by an own "
           "reverse-unit-propagation checker: each learnt/derived clause must be RUP over the clauses known before it, and every "
           "unsat answer reached by search must be a unit-propagation conflict under the recorded assumptions; "
           "distinct_nontrivial = distinct derived clauses confirmed",
    "C13": "at every check-sat the recorded user assertions of the active frames (A) and the roots handed to the cnfizer (P) are "
           "compared: P and not A must be unsat, and sat(A) implies sat(P) (z3, confirmed by cvc5); workload rich in ite, "
           "div/mod, distinct, substitutions, UF+arith purification, arrays, both preprocessing modes; "
           "distinct_nontrivial = distinct (A,P) pairs validated",
    "C26": "each Farkas certificate recorded at LASolver::storeExplanation is evaluated in exact arithmetic: coefficients "
           "positive, the weighted sum of the bounds (negative integer literals tightened by one) cancels every variable and "
           "yields a false constant relation; distinct_nontrivial = distinct certificates validated",
}


def main(prop, tier):
    camp = Campaign(prop, tier)
    n = N_QUICK[prop] if tier == "quick" else N_THOROUGH[prop]
    n = int(__import__("os").environ.get("VERIF_CASES", n))     # experiments only
    base = camp.seed * 1000003 + int(prop[1:]) * 1000
    camp.rule = RULES[prop]
    camp.assumptions = ["hooks print terms with the solver's own SMT-LIB printer (checked separately by C17)",
                        "z3 5.1 + cvc5 1.0.3 as oracle for validity of recorded clauses" if prop in ("C11", "C13") else
                        "own checker (python, exact arithmetic / unit propagation)"]
    camp.run(case, [(base + i, prop) for i in range(n)], chunksize=2)
    return camp.finish(replay_fn=replay(prop), min_evals=50)
