"""Generates /verif/MANIFEST.json from the registry (python3-vt -m vlib.manifest)."""
import json
import os

from .build import VERIF, GUARD
from .main import REGISTRY

EXPL = "exploration"

# property -> (engine, technique, level text, level note, design ref)
TB = "Trusts SMT-LIB semantics as implemented by z3 5.1 and cvc5 1.0.3 on tiny quantifier-free inputs (two references must agree before a violation is reported), and the generator's own stack/scope model. Holds only for the executions produced."
META = {
    "C01": ("scriptdiff", "differential runtime monitoring vs two reference solvers",
            "Every check-sat answer of generated scripts (17 logics x option vectors x push/pop histories) is compared "
            "with a two-reference consensus on the generator's own copy of the assertion stack; a confirmed 'unsat' on a "
            "satisfiable stack is a violation. Exploration over seeded scripts, not a proof.", TB, "4/C01"),
    "C02": ("scriptdiff", "differential runtime monitoring vs two reference solvers",
            "As C01 for 'sat' answers, generation biased to integer problems, difference logic with constants beyond "
            "2^31/2^53/2^63, arrays and UF+arithmetic.", TB, "4/C02"),
    "C03": ("outputs", "offline checker over printed models/values/assignments (evaluation by two references)",
            "After every sat of generated scripts the printed model must define every declared symbol and, together with "
            "the recorded current assertions, be satisfiable as a closed ground problem; get-value and get-assignment "
            "responses must be valid under that same model.", TB, "4/C03"),
    "C04": ("scriptdiff", "history monitor: incremental run vs fresh process per check, and vs the history without queries",
            "Each definitive answer of a push/pop/assert/check/get-* history is compared with a fresh opensmt process on "
            "exactly the generator's stack at that moment, and with the same history with all get-* removed.",
            "Self-consistency of the same binary (references only for blame); generator stack model mirrors accepted commands only.", "4/C04"),
    "C05": ("scriptdiff", "metamorphic monitor across configurations",
            "The same script is run under K option vectors / logic embeddings; one sat and one unsat for the same check "
            "is a violation (configurations that reject different commands are not compared).",
            "Pure self-consistency; holds for the sampled configurations only.", "4/C05"),
    "C06": ("outputs", "offline checker over printed unsat cores (two-reference unsat check + scope model)",
            "After every unsat the printed core must be a repetition-free list of names of current assertions and, with the "
            "unnamed current assertions, unsatisfiable; full cores: every printed formula equivalent to a current assertion "
            "and the set unsat.", TB, "4/C06"),
    "C07": ("outputs", "offline checker: every single removal from a minimal core must be satisfiable",
            "With :minimal-unsat-cores each reported core is re-checked: core minus any one element plus the unnamed "
            "assertions must be satisfiable (two references).", TB, "4/C07"),
    "C08": ("outputs", "offline checker over printed interpolants (implication, inconsistency, shared symbols)",
            "For random A/B splits after unsat: the request must not be rejected, A => I, I and B unsat (B = all other "
            "current assertions), symbols of I shared; all interpolation algorithms/options, push/pop histories.", TB, "4/C08"),
    "C09": ("outputs", "offline checker over sequence interpolants (Craig + path property)",
            "k>=3 ordered groups: each I_j is a Craig interpolant for the first j groups vs the rest and "
            "I_j and G_(j+1) imply I_(j+1).", TB, "4/C09"),
    "C18": ("procmon", "AddressSanitizer+UBSan build of the executable under injected-problem, mutation and grammar workloads",
            "Every run of the sanitizer build (file and pipe mode) must end without signal, sanitizer report or uncaught "
            "exception, exit in {0,1}; exactly-one-injected-problem scripts must print a diagnostic and exit non-zero; a "
            "printed diagnostic implies a non-zero exit status; check-sat-free inputs finish within a CPU budget.",
            "Sanitizers only see executed paths and miss non-adjacent overflows; CPU-time budgets only; gcc ASan+UBSan, NDEBUG as shipped.", "4/C18"),
    "C20": ("procmon", "differential process monitor: file mode vs chunked pipe mode",
            "Syntactically valid scripts with hostile layout are run from a file and through -p under several chunkings of "
            "stdin; stdout and exit status must be byte-identical.",
            "'Syntactically valid' = accepted by file mode without a syntax error; chunkings sampled, not enumerated.", "4/C20"),
    "C23": ("procmon", "replicated-run monitor with ASLR on/off and varying environment",
            "Scripts that print containers (models, cores, interpolants, proofs, assignments) are run 3+1 times; outputs "
            "and exit status must be byte-identical.",
            "ASLR is enabled on the machine (checked and recorded); 4 runs per script.", "4/C23"),
    "C29": ("scriptdiff", "differential runtime monitoring on out-of-fragment scripts",
            "Scripts generated with a richer profile than the declared logic; each command must be rejected or every "
            "definitive answer must agree with the reference consensus on the accepted assertions.", TB, "4/C29"),
    "C30": ("scriptdiff", "bounded-progress monitor (CPU-time watchdog with confirmation re-runs)",
            "Non-integer logics x alternative engines x push/pop histories which the default engine and z3 decide "
            "quickly; a check-sat exceeding the CPU budget twice (30/60 s quick, 60/120 s thorough) is a divergence.",
            "Unbounded termination cannot be decided by finite runs; restated as bounded progress as in the property's quantifier text.", "4/C30"),
}

ALL_PROPS = ["C%02d" % i for i in range(1, 31)]


def main():
    checks = []
    for p in ALL_PROPS:
        if p not in REGISTRY or p not in META:
            continue
        eng, tech, text, note, ref = META[p]
        checks.append({
            "property_id": p,
            "quick_cmd": "./run %s --tier quick" % p,
            "thorough_cmd": "./run %s --tier thorough" % p,
            "evidence_file": "/verif/evidence/%s.json" % p,
            "replay_cmd_template": "./run %s --replay {path}" % p,
            "engine": eng,
            "level_claimed": {"category": EXPL, "text": text, "design_ref": "DESIGN.md section " + ref},
            "level_note": note,
            "technique": tech,
        })
    na = [{"property_id": p, "reason": NA_REASON.get(p, "check not built yet in this round (planned, see DESIGN.md section 4)")}
          for p in ALL_PROPS if p not in REGISTRY or p not in META]
    man = {
        "version": 1,
        "setup_cmd": "./run --setup",
        "hooks": {
            "guard": GUARD,
            "enable": "-DCMAKE_CXX_FLAGS=-D%s (vlib/build.py builds /repo's working tree into /verif/.build/<flavour> "
                      "with the guard on; trace output only when env OSMT_VERIF_TRACE names a file)" % GUARD,
            "baseline_off_cmd": "cmake --build /repo/_build -j16 && ctest --test-dir /repo/_build -j8 --timeout 900",
            "source_commits": HOOK_COMMITS,
            "add_only": True,
        },
        "engines": ENGINES,
        "checks": checks,
        "notes": "Technique family: runtime monitoring and sanitizers. One entry point ./run; every check rebuilds the "
                 "needed flavour of /repo's working tree (ninja) first. Exit 0 held / 1 VIOLATION / 2 harness failure "
                 "or nothing observed. Known findings: /verif/known_findings.json.",
        "not_applicable": na,
    }
    with open(os.path.join(VERIF, "MANIFEST.json"), "w") as f:
        json.dump(man, f, indent=1)
    print("MANIFEST.json: %d checks, %d not claimed" % (len(checks), len(na)))


NA_REASON = {}
HOOK_COMMITS = []
ENGINES = [
    {"name": "scriptdiff", "path": "vlib/checks/answers.py, vlib/checks/history.py",
     "serves_properties": ["C01", "C02", "C04", "C05", "C29", "C30"],
     "kind_free_text": "seeded script generator + opensmt executable + reference-solver consensus / self-consistency oracles"},
    {"name": "procmon", "path": "vlib/checks/procmon.py", "serves_properties": ["C18", "C20", "C23"],
     "kind_free_text": "process-level monitors of the opensmt executable (sanitizer build, pipe/file differential, replicated runs)"},
    {"name": "outputs", "path": "vlib/checks/models.py, cores.py, itp.py, vlib/outputs.py",
     "serves_properties": ["C03", "C06", "C07", "C08", "C09"],
     "kind_free_text": "offline checkers over what opensmt prints (models, values, assignments, cores, interpolants)"},
]

if __name__ == "__main__":
    main()
