"""Generates /verif/MANIFEST.json from the registry (python3-vt -m vlib.manifest)."""
import json
import os

from .build import VERIF, GUARD
from .main import REGISTRY

EXPL = "exploration"

# property -> (engine, technique, level text, level note, design ref)
META = {
    "C01": ("scriptdiff", "differential runtime monitoring vs two reference solvers",
            "Every check-sat answer of generated scripts (17 logics x option vectors x push/pop histories) is compared "
            "with a two-reference consensus (z3 5.1 + cvc5/z3 4.8) on the generator's own copy of the assertion stack; "
            "a confirmed 'unsat' on a satisfiable stack is a violation. Exploration over thousands of seeded scripts, "
            "not a proof.",
            "Trusts SMT-LIB semantics as implemented by z3 and cvc5 on tiny QF inputs (two must agree), and the "
            "generator's stack model. Holds only for the scripts generated.", "4/C01"),
    "C02": ("scriptdiff", "differential runtime monitoring vs two reference solvers",
            "As C01 for 'sat' answers, with generation biased to integer problems, difference logic with constants "
            "beyond 2^31/2^53/2^63, arrays and UF+arithmetic; a confirmed 'sat' on an unsatisfiable stack is a violation.",
            "Same trusted base as C01.", "4/C02"),
}

ALL_PROPS = ["C%02d" % i for i in range(1, 31)]


def main():
    checks = []
    for p in ALL_PROPS:
        if p not in REGISTRY or p not in META:
            continue
        eng, tech, text, note, ref = META[p]
        checks.append({
            "property_id": p,
            "quick_cmd": "./run %s --tier quick" % p,
            "thorough_cmd": "./run %s --tier thorough" % p,
            "evidence_file": "/verif/evidence/%s.json" % p,
            "replay_cmd_template": "./run %s --replay {path}" % p,
            "engine": eng,
            "level_claimed": {"category": EXPL, "text": text, "design_ref": "DESIGN.md section " + ref},
            "level_note": note,
            "technique": tech,
        })
    na = [{"property_id": p, "reason": NA_REASON.get(p, "check not built yet in this round (planned, see DESIGN.md section 4)")}
          for p in ALL_PROPS if p not in REGISTRY or p not in META]
    man = {
        "version": 1,
        "setup_cmd": "./run --setup",
        "hooks": {
            "guard": GUARD,
            "enable": "-DCMAKE_CXX_FLAGS=-D%s (vlib/build.py builds /repo's working tree into /verif/.build/<flavour> "
                      "with the guard on; trace output only when env OSMT_VERIF_TRACE names a file)" % GUARD,
            "baseline_off_cmd": "cmake --build /repo/_build -j16 && ctest --test-dir /repo/_build -j8 --timeout 900",
            "source_commits": HOOK_COMMITS,
            "add_only": True,
        },
        "engines": ENGINES,
        "checks": checks,
        "notes": "Technique family: runtime monitoring and sanitizers. One entry point ./run; every check rebuilds the "
                 "needed flavour of /repo's working tree (ninja) first. Exit 0 held / 1 VIOLATION / 2 harness failure "
                 "or nothing observed. Known findings: /verif/known_findings.json.",
        "not_applicable": na,
    }
    with open(os.path.join(VERIF, "MANIFEST.json"), "w") as f:
        json.dump(man, f, indent=1)
    print("MANIFEST.json: %d checks, %d not claimed" % (len(checks), len(na)))


NA_REASON = {}
HOOK_COMMITS = []
ENGINES = [
    {"name": "scriptdiff", "path": "vlib/checks/answers.py", "serves_properties": ["C01", "C02"],
     "kind_free_text": "seeded script generator + opensmt executable + reference-solver consensus oracle"},
]

if __name__ == "__main__":
    main()
