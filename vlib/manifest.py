"""Generates /verif/MANIFEST.json from the registry (python3-vt -m vlib.manifest)."""
import json
import os

from .build import VERIF, GUARD
from .main import REGISTRY

EXPL = "exploration"

# property -> (engine, technique, level text, level note, design ref)
TB = "Trusts SMT-LIB semantics as implemented by z3 5.1 and cvc5 1.0.3 on tiny quantifier-free inputs (two references must agree before a violation is reported), and the generator's own stack/scope model. Holds only for the executions produced."
META = {
    "C01": ("scriptdiff", "differential runtime monitoring vs two reference solvers",
            "Every check-sat answer of generated scripts (17 logics x option vectors x push/pop histories) is compared "
            "with a two-reference consensus on the generator's own copy of the assertion stack; a confirmed 'unsat' on a "
            "satisfiable stack is a violation. Exploration over seeded scripts, not a proof.", TB, "4/C01"),
    "C02": ("scriptdiff", "differential runtime monitoring vs two reference solvers",
            "As C01 for 'sat' answers, generation biased to integer problems, difference logic with constants beyond "
            "2^31/2^53/2^63, arrays and UF+arithmetic.", TB, "4/C02"),
    "C03": ("outputs", "offline checker over printed models/values/assignments (evaluation by two references)",
            "After every sat of generated scripts the printed model must define every declared symbol and, together with "
            "the recorded current assertions, be satisfiable as a closed ground problem; get-value and get-assignment "
            "responses must be valid under that same model.", TB, "4/C03"),
    "C04": ("scriptdiff", "history monitor: incremental run vs fresh process per check, and vs the history without queries",
            "Each definitive answer of a push/pop/assert/check/get-* history is compared with a fresh opensmt process on "
            "exactly the generator's stack at that moment, and with the same history with all get-* removed.",
            "Self-consistency of the same binary (references only for blame); generator stack model mirrors accepted commands only.", "4/C04"),
    "C05": ("scriptdiff", "metamorphic monitor across configurations",
            "The same script is run under K option vectors / logic embeddings; one sat and one unsat for the same check "
            "is a violation (configurations that reject different commands are not compared).",
            "Pure self-consistency; holds for the sampled configurations only.", "4/C05"),
    "C06": ("outputs", "offline checker over printed unsat cores (two-reference unsat check + scope model)",
            "After every unsat the printed core must be a repetition-free list of names of current assertions and, with the "
            "unnamed current assertions, unsatisfiable; full cores: every printed formula equivalent to a current assertion "
            "and the set unsat.", TB, "4/C06"),
    "C07": ("outputs", "offline checker: every single removal from a minimal core must be satisfiable",
            "With :minimal-unsat-cores each reported core is re-checked: core minus any one element plus the unnamed "
            "assertions must be satisfiable (two references).", TB, "4/C07"),
    "C08": ("outputs", "offline checker over printed interpolants (implication, inconsistency, shared symbols)",
            "For random A/B splits after unsat: the request must not be rejected, A => I, I and B unsat (B = all other "
            "current assertions), symbols of I shared; all interpolation algorithms/options, push/pop histories.", TB, "4/C08"),
    "C09": ("outputs", "offline checker over sequence interpolants (Craig + path property)",
            "k>=3 ordered groups: each I_j is a Craig interpolant for the first j groups vs the rest and "
            "I_j and G_(j+1) imply I_(j+1).", TB, "4/C09"),
    "C10": ("trace", "own resolution-proof replay checker over printed proofs + leaf oracle over the hook trace of the same run",
            "Every get-proof output of unsat-biased incremental scripts is parsed and replayed: names bound once before use, "
            "pivots with opposite signs, stated resolvents, empty final clause; each leaf must be the activation of an ACTIVE "
            "level, a valid theory lemma, or implied by the roots recorded for the active levels.",
            "Roots come from the hook trace (C13 covers roots vs assertions); z3+cvc5 for leaf validity; printer ambiguity of "
            "unit clauses is resolved in the solver's favour.", "4/C10"),
    "C11": ("trace", "offline validity check (z3, confirmed by cvc5) of every theory clause recorded by hooks",
            "Hooks record every theory conflict, propagation reason, split clause and root-level theory deduction/conflict "
            "(with the level-0 trail it rests on); each distinct clause must be valid in the background theory.",
            "Terms are printed by the solver's printer; z3 5.1 + cvc5 decide validity; only clauses produced by the executed "
            "workload are seen.", "4/C11"),
    "C12": ("trace", "own reverse-unit-propagation checker over the recorded clause stream",
            "Hooks record input, theory, learnt, eliminated and strengthened clauses and assumptions in emission order; every "
            "derived clause must be RUP over what was known before it and every unsat reached by search must be a UP conflict "
            "under the assumptions.",
            "Checker keeps all clauses (no deletion): sound for 'is a consequence'; only executed derivations are seen.", "4/C12"),
    "C13": ("trace", "offline implication/equisatisfiability check between recorded assertions and recorded roots",
            "At every check-sat the user assertions of the active frames and the roots handed to the cnfizer are compared: "
            "roots imply assertions, and satisfiable assertions have satisfiable roots (z3, confirmed by cvc5).",
            "z3 5.1 + cvc5; auxiliary symbols are free in the implication check.", "4/C13"),
    "C14": ("apiharness", "API harness + equivalence oracle (z3, counter-models confirmed by cvc5)",
            "Random well-sorted constructor calls through the public mk* functions; the printed result must be equivalent to "
            "the operator applied to the intended meaning of the arguments.",
            "Intended meaning is composed by the harness from argument texts, never from the solver's output; depth and "
            "argument tuples are sampled.", "4/C14"),
    "C15": ("apiharness", "reference-model monitor: FastRational vs GMP on a boundary grid and random operands (ASan+UBSan)",
            "Every operation of the statement is compared with mpq/mpz on ~950 boundary rationals (three construction "
            "histories each) and random operands; representation, canonical form, == and hash of equal values are checked.",
            "GMP is the reference; pairs are a grid + random sample, not all pairs.", "4/C15"),
    "C16": ("apiharness", "exhaustive short strings + long random literals against an own exact literal grammar (API harness and executable)",
            "Accepted strings must be well-formed literals denoting their exact base-10 value and print back exactly; the "
            "executable must not accept a literal and silently read another value; no crash.",
            "Own lenient literal grammar and python Fractions as oracle; exhaustive only up to length 4 (quick) / 6 (thorough).", "4/C16"),
    "C17": ("outputs", "round-trip monitor: every printed object is tokenised strictly and read back by opensmt and z3",
            "Scripts whose user symbols come from a hostile pool (reserved words, names needing |quotes|, number-like "
            "names, names equal to model formals) print models, values, interpolants, full cores and dumped queries; each "
            "printed object must consist of valid SMT-LIB tokens, be accepted by a fresh opensmt with the original "
            "declarations (model + assertions sat, formulas parse, dumped query gives the same answer) and by z3.",
            "Names starting with '@' or '.' (reserved for solvers by SMT-LIB) and names of theory symbols are not generated; "
            "z3 is skipped for scripts using quoted reserved words (z3 treats |as|, |forall| as the reserved word); sort "
            "names stay simple.", "4/C17"),
    "C18": ("procmon", "AddressSanitizer+UBSan build of the executable under injected-problem, mutation and grammar workloads",
            "Every run of the sanitizer build (file and pipe mode) must end without signal, sanitizer report or uncaught "
            "exception, exit in {0,1}; exactly-one-injected-problem scripts must print a diagnostic and exit non-zero; a "
            "printed diagnostic implies a non-zero exit status; check-sat-free inputs finish within a CPU budget.",
            "Sanitizers only see executed paths and miss non-adjacent overflows; CPU-time budgets only; gcc ASan+UBSan, NDEBUG as shipped.", "4/C18"),
    "C19": ("outputs", "metamorphic monitor: script vs the same script with rejected commands inserted",
            "1-3 commands of 13 rejected kinds are inserted into valid scripts with queries; each must answer (error ...), the "
            "other responses must keep check-sat answers, acceptance pattern and printed name sets, and differing outputs must "
            "pass the C03/C06/C08 oracles for the script without the commands.",
            "Self-consistency of the same binary plus the output oracles; kinds of rejected commands are a fixed catalogue.", "4/C19"),
    "C20": ("procmon", "differential process monitor: file mode vs chunked pipe mode",
            "Syntactically valid scripts with hostile layout are run from a file and through -p under several chunkings of "
            "stdin; stdout and exit status must be byte-identical.",
            "'Syntactically valid' = accepted by file mode without a syntax error; chunkings sampled, not enumerated.", "4/C20"),
    "C21": ("outputs", "online checker of a trace specification (reference scope model predicts every response)",
            "Histories with :named terms (top-level/nested), define-funs, re-introductions and uses of visible and popped "
            "names/definitions in scoped and global mode; a reference scope model predicts acceptance of each command and the "
            "name sets printed by get-unsat-core / get-assignment.",
            "The reference model encodes the scoping rules of the statement; only generated histories are seen.", "4/C21"),
    "C22": ("tsolver", "invariant monitors on a theory-solver harness: reference verdict per literal set + fresh-solver comparison",
            "Random assert/check/backtrack walks drive LASolver (LRA, LIA), Egraph and the difference-logic solvers as "
            "TSolverHandler does; every UNSAT verdict must be on a T-unsatisfiable literal set and every complete SAT verdict "
            "(LRA, UF, IDL, RDL) on a T-satisfiable one; a fresh solver given the same literals must answer the same; conflicts "
            "are subsets of the set; deductions are implied by it.",
            "z3 5.1 and z3 4.8 decide the tiny literal sets; LIA only for the UNSAT half; the array solver is not driven "
            "directly; 80% of the walks follow the engine's backtracking protocol, 20% are free.", "4/C22"),
    "C23": ("procmon", "replicated-run monitor with ASLR on/off and varying environment",
            "Scripts that print containers (models, cores, interpolants, proofs, assignments) are run 3+1 times; outputs "
            "and exit status must be byte-identical.",
            "ASLR is enabled on the machine (checked and recorded); 4 runs per script.", "4/C23"),
    "C24": ("threads", "ThreadSanitizer and AddressSanitizer builds of library + harness, plus a run-alone/brute-force result monitor",
            "2, 4 and 8 threads each create their own logic, configuration and solver and solve problems whose coefficients "
            "force the arbitrary-precision path (and UF / small-number controls); every concurrent result (status and model "
            "check) must equal the run-alone result and the brute-force truth; zero TSan / ASan / UBSan reports.",
            "Interleavings are those the scheduler produced; libgmp is not instrumented, so a race on data inside GMP "
            "is visible only through wrong results.", "4/C24"),
    "C25": ("threads", "ThreadSanitizer build with a rendezvous hook (relaxed atomics) plus a known-status result monitor",
            "notifyStop / notifyGlobalStop are issued from another thread at chosen logical moments of check-sat (stopPoint "
            "hook: search loop, theory check, preprocessing, elimination) and at free-running delays on instances of known "
            "status; the result must be unknown or the known status, a sat result must carry a model of all assertions; zero "
            "TSan reports; the result monitor is repeated on the release build at full speed.",
            "Moments are those of the hook; the request lands a few instructions after the chosen moment; the monitor's own "
            "atomics are relaxed so that it adds no synchronisation.", "4/C25"),
    "C26": ("trace", "own exact-arithmetic checker of the Farkas certificates recorded by a hook",
            "Each recorded (literal, coefficient) explanation of an arithmetic conflict is summed in exact rationals: positive "
            "coefficients, all variables cancel, contradictory constant.",
            "Atoms are read in the solver's normal form (<= c poly); negative integer literals are tightened by one.", "4/C26"),
    "C27": ("apiharness", "reference-model monitor in an ASan/UBSan harness (GMP / python integers / z3) + executable windows",
            "Constant div/mod against the Euclidean definition (exhaustive on [-40,40]^2, boundary grid, random big operands); "
            "integer atoms over a coefficient grid and div/mod of sums must keep their meaning (z3, cvc5 for counter-models); "
            "integer windows lo < a*x < hi around multiples of a, in LIA and IDL form, must be answered exactly as python "
            "integers decide and the returned value must lie in the window.",
            "The 'all integers' half of the quantifier is sampled (grid + random), exhaustive only on the small square.", "4/C27"),
    "C28": ("apiharness", "invariant monitor in the API harness (re-construction, commuted construction, term-table audit)",
            "Every constructor call is repeated (same identity required), and/or/+/* are re-called with reversed arguments, and "
            "the whole term table is audited for duplicates and child-before-parent ids.",
            "Order-insensitivity only demanded of constructors that sort their arguments (and/or/+/*).", "4/C28"),
    "C29": ("scriptdiff", "differential runtime monitoring on out-of-fragment scripts",
            "Scripts generated with a richer profile than the declared logic; each command must be rejected or every "
            "definitive answer must agree with the reference consensus on the accepted assertions.", TB, "4/C29"),
    "C30": ("scriptdiff", "bounded-progress monitor (CPU-time watchdog with confirmation re-runs)",
            "Non-integer logics x alternative engines x push/pop histories which the default engine and z3 decide "
            "quickly; a check-sat exceeding the CPU budget twice (30/60 s quick, 60/120 s thorough) is a divergence.",
            "Unbounded termination cannot be decided by finite runs; restated as bounded progress as in the property's quantifier text.", "4/C30"),
}

ALL_PROPS = ["C%02d" % i for i in range(1, 31)]


def main():
    checks = []
    for p in ALL_PROPS:
        if p not in REGISTRY or p not in META:
            continue
        eng, tech, text, note, ref = META[p]
        checks.append({
            "property_id": p,
            "quick_cmd": "./run %s --tier quick" % p,
            "thorough_cmd": "./run %s --tier thorough" % p,
            "evidence_file": "/verif/evidence/%s.json" % p,
            "replay_cmd_template": "./run %s --replay {path}" % p,
            "engine": eng,
            "level_claimed": {"category": EXPL, "text": text, "design_ref": "DESIGN.md section " + ref},
            "level_note": note,
            "technique": tech,
        })
    na = [{"property_id": p, "reason": NA_REASON.get(p, "check not built yet in this round (planned, see DESIGN.md section 4)")}
          for p in ALL_PROPS if p not in REGISTRY or p not in META]
    man = {
        "version": 1,
        "setup_cmd": "./run --setup",
        "hooks": {
            "guard": GUARD,
            "enable": "-DCMAKE_CXX_FLAGS=-D%s (vlib/build.py builds /repo's working tree into /verif/.build/<flavour> "
                      "with the guard on; trace output only when env OSMT_VERIF_TRACE names a file)" % GUARD,
            "baseline_off_cmd": "cmake --build /repo/_build -j16 && ctest --test-dir /repo/_build -j8 --timeout 900",
            "source_commits": HOOK_COMMITS,
            "add_only": True,
        },
        "engines": ENGINES,
        "checks": checks,
        "notes": "Technique family: runtime monitoring and sanitizers. One entry point ./run; every check rebuilds the "
                 "needed flavour of /repo's working tree (ninja) first. Exit 0 held / 1 VIOLATION / 2 harness failure "
                 "or nothing observed. Known findings: /verif/known_findings.json.",
        "not_applicable": na,
    }
    with open(os.path.join(VERIF, "MANIFEST.json"), "w") as f:
        json.dump(man, f, indent=1)
    print("MANIFEST.json: %d checks, %d not claimed" % (len(checks), len(na)))


NA_REASON = {}
HOOK_COMMITS = ["d086e88", "01ed4a7"]
ENGINES = [
    {"name": "scriptdiff", "path": "vlib/checks/answers.py, vlib/checks/history.py",
     "serves_properties": ["C01", "C02", "C04", "C05", "C29", "C30"],
     "kind_free_text": "seeded script generator + opensmt executable + reference-solver consensus / self-consistency oracles"},
    {"name": "procmon", "path": "vlib/checks/procmon.py", "serves_properties": ["C18", "C20", "C23"],
     "kind_free_text": "process-level monitors of the opensmt executable (sanitizer build, pipe/file differential, replicated runs)"},
    {"name": "trace", "path": "vlib/checks/trace.py, vlib/checks/proofs.py, /repo/src/common/VerifHooks.h",
     "serves_properties": ["C10", "C11", "C12", "C13", "C26"],
     "kind_free_text": "guarded hooks writing an event log (assertions, roots, clause stream, theory clauses, Farkas certificates) + offline checkers"},
    {"name": "tsolver", "path": "harness/h_tsolver.cc, vlib/checks/tsolver.py", "serves_properties": ["C22"],
     "kind_free_text": "C++ harness driving the theory solvers directly with replayable random walks; reference verdicts by z3, fresh-solver comparison"},
    {"name": "threads", "path": "harness/h_threads.cc, harness/h_stop.cc, vlib/checks/threads.py", "serves_properties": ["C24", "C25"],
     "kind_free_text": "ThreadSanitizer / AddressSanitizer builds of libopensmt.a and multi-threaded harnesses, sanitizer log parsing, result monitors"},
    {"name": "apiharness", "path": "harness/*.cc, vlib/checks/apiharness.py", "serves_properties": ["C14", "C15", "C16", "C27", "C28"],
     "kind_free_text": "C++ harnesses linked against libopensmt.a (ASan/UBSan or release flavour) with reference-model oracles"},
    {"name": "outputs", "path": "vlib/checks/models.py, cores.py, itp.py, printing.py, rejected.py, scopes.py, vlib/outputs.py",
     "serves_properties": ["C03", "C06", "C07", "C08", "C09", "C17", "C19", "C21"],
     "kind_free_text": "offline checkers over what opensmt prints (models, values, assignments, cores, interpolants, dumped queries; acceptance pattern of commands)"},
]

if __name__ == "__main__":
    main()
