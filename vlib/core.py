"""Campaign runner, verdict discipline, known findings, evidence writer."""
import hashlib
import json
import multiprocessing as mp
import os
import re
import sys
import time
import traceback

from . import build

VERIF = build.VERIF
EVID = os.environ.get("VERIF_EVIDENCE_DIR") or os.path.join(VERIF, "evidence")
OUT = os.environ.get("VERIF_OUT_DIR") or os.path.join(VERIF, "out")
KNOWN = os.path.join(VERIF, "known_findings.json")


def seed_base():
    try:
        return int(os.environ.get("VERIF_SEED", "1"))
    except ValueError:
        return 1


def h(s):
    return hashlib.sha1(s.encode("utf-8", "replace")).hexdigest()[:12]


class Violation:
    """cls = which oracle failed; site = stable discriminator; detail = human text;
    witness = json-able dict sufficient to replay."""

    def __init__(self, cls, site, detail, witness):
        self.cls = cls
        self.site = site
        self.detail = detail
        self.witness = witness

    def key(self):
        return self.cls + "/" + self.site

    def to_json(self):
        return {"class": self.cls, "site": self.site, "detail": self.detail, "witness": self.witness}


class CaseResult:
    """What one case contributes: oracle evaluations, whether non-trivial, a distinctness key,
    feature counters, violations, inconclusive count, an optional sample."""

    def __init__(self):
        self.evals = 0
        self.nontrivial = 0
        self.dkeys = []          # keys of distinct non-trivial observations
        self.feat = {}
        self.viol = []
        self.inconclusive = 0
        self.sample = None
        self.error = None

    def inc(self, k, n=1):
        self.feat[k] = self.feat.get(k, 0) + n


def load_known(prop):
    if not os.path.exists(KNOWN):
        return []
    with open(KNOWN) as f:
        data = json.load(f)
    return [e for e in data.get("findings", []) if e.get("property") == prop]


def _match(entry, v):
    if entry.get("status") != "open":
        return False
    if entry.get("class") != v.cls:
        return False
    pat = entry.get("site_regex")
    return bool(pat) and re.fullmatch(pat, v.site) is not None


_KNOWN_CACHE = {}


def is_known(prop, cls, site):
    """True if an open known finding of `prop` matches (cls, site) - used by case functions to skip the
    (expensive) minimisation of violations that will be attributed to a known finding anyway."""
    if prop not in _KNOWN_CACHE:
        _KNOWN_CACHE[prop] = load_known(prop)
    v = Violation(cls, site, "", None)
    return any(_match(e, v) for e in _KNOWN_CACHE[prop])


def _case_wrapper(args):
    fn, param = args
    try:
        return fn(param)
    except Exception:
        r = CaseResult()
        r.error = traceback.format_exc()
        return r


class Campaign:
    def __init__(self, prop, tier, level="exploration"):
        self.prop = prop
        self.tier = tier
        self.level = level
        self.seed = seed_base()
        self.t0 = time.time()
        self.evals = 0
        self.dkeys = set()
        self.feat = {}
        self.viol = {}           # key -> Violation (first)
        self.viol_count = 0
        self.inconclusive = 0
        self.samples = []
        self.errors = []
        self.cases = 0
        self.rule = ""
        self.assumptions = []
        self.extra = {}

    def absorb(self, r):
        self.cases += 1
        if r.error:
            self.errors.append(r.error)
            return
        self.evals += r.evals
        for k in r.dkeys:
            self.dkeys.add(k)
        for k, n in r.feat.items():
            self.feat[k] = self.feat.get(k, 0) + n
        self.inconclusive += r.inconclusive
        for v in r.viol:
            self.viol_count += 1
            self.viol.setdefault(v.key(), v)
        if r.sample is not None and len(self.samples) < 5:
            self.samples.append(r.sample)

    def run(self, fn, params, workers=None, chunksize=4):
        params = list(params)
        workers = workers or min(16, os.cpu_count() or 4)
        if workers <= 1 or len(params) <= 1:
            for p in params:
                self.absorb(_case_wrapper((fn, p)))
            return
        with mp.Pool(workers) as pool:
            for r in pool.imap_unordered(_case_wrapper, [(fn, p) for p in params], chunksize):
                self.absorb(r)

    # ------------------------------------------------------------------
    def finish(self, replay_fn=None, min_evals=1):
        """Known-findings handling, evidence, VIOLATION lines, exit code."""
        wall = time.time() - self.t0
        known = load_known(self.prop)
        new = []
        attributed = {}
        for key, v in sorted(self.viol.items()):
            ent = next((e for e in known if _match(e, v)), None)
            if ent is not None:
                attributed.setdefault(ent["id"], []).append(key)
            else:
                new.append(v)
        # replay committed witnesses of open findings
        for e in known:
            if e.get("status") != "open":
                continue
            still = None
            if replay_fn and e.get("witness"):
                wpath = os.path.join(VERIF, e["witness"])
                try:
                    with open(wpath) as f:
                        w = json.load(f)
                    vs = replay_fn(w.get("witness", w))
                    still = any(_match(e, v) for v in vs)
                    for v in vs:
                        if not _match(e, v) and not any(_match(e2, v) for e2 in known):
                            if v.key() not in self.viol:
                                self.viol[v.key()] = v
                                new.append(v)
                except Exception:
                    self.errors.append("replay of %s failed: %s" % (e["id"], traceback.format_exc()))
            if still is False and not attributed.get(e["id"]):
                print("KNOWN-FINDING-NOT-REPRODUCED: property=%s %s (witness no longer fails; entry suppresses nothing)"
                      % (self.prop, e["id"]))
            else:
                print("KNOWN-FINDING: property=%s %s: %s" % (self.prop, e["id"], e.get("what", "")))
        # fixed entries: their witnesses are regression seeds, replayed like any other case
        for e in known:
            if e.get("status") == "fixed" and replay_fn and e.get("witness"):
                wpath = os.path.join(VERIF, e["witness"])
                try:
                    with open(wpath) as f:
                        w = json.load(f)
                    for v in replay_fn(w.get("witness", w)):
                        if not any(_match(e2, v) for e2 in known) and v.key() not in self.viol:
                            self.viol[v.key()] = v
                            new.append(v)
                    self.feat["fixed_witness_replayed"] = self.feat.get("fixed_witness_replayed", 0) + 1
                except Exception:
                    self.errors.append("replay of %s failed: %s" % (e["id"], traceback.format_exc()))
        os.makedirs(EVID, exist_ok=True)
        rdir = os.path.join(OUT, "replays", self.prop)
        os.makedirs(rdir, exist_ok=True)
        lines = []
        for v in new:
            path = os.path.join(rdir, "%s-%s.json" % (re.sub(r"[^A-Za-z0-9_.-]", "_", v.key())[:80], h(json.dumps(v.witness, sort_keys=True, default=str))))
            with open(path, "w") as f:
                json.dump({"property": self.prop, **v.to_json()}, f, indent=1, default=str)
            lines.append("VIOLATION property=%s replay=%s" % (self.prop, path))
            print("  [%s] %s" % (v.key(), v.detail[:600]))
        cov = {
            "evaluations": self.evals,
            "distinct_nontrivial": len(self.dkeys),
            "rule": self.rule,
            "samples": self.samples[:5] or ["(none)"],
            "cases": self.cases,
            "inconclusive": self.inconclusive,
            "features": dict(sorted(self.feat.items())),
            "known_findings_attributed": attributed,
            "harness_errors": len(self.errors),
            "exhaustive": False,
        }
        cov.update(self.extra)
        ev = {
            "property_id": self.prop, "tier": self.tier, "seed": self.seed, "level": self.level,
            "coverage": cov, "assumptions": self.assumptions, "wall_s": round(wall, 2),
            "violations": len(new),
        }
        with open(os.path.join(EVID, self.prop + ".json"), "w") as f:
            json.dump(ev, f, indent=1, default=str)
        print("[%s %s seed=%d] cases=%d evaluations=%d distinct_nontrivial=%d inconclusive=%d new_violations=%d known=%d wall=%.1fs"
              % (self.prop, self.tier, self.seed, self.cases, self.evals, len(self.dkeys), self.inconclusive,
                 len(new), sum(len(x) for x in attributed.values()), wall))
        feats = ", ".join("%s=%d" % kv for kv in sorted(self.feat.items()))
        print("  observed: " + feats)
        for ln in lines:
            print(ln)
        if self.errors:
            print("HARNESS-ERRORS (%d), first:\n%s" % (len(self.errors), self.errors[0]))
        sys.stdout.flush()
        if new:
            return 1
        if self.errors and len(self.errors) > max(2, self.cases // 20):
            return 2
        if self.evals < min_evals or len(self.dkeys) < 2:
            print("INCONCLUSIVE: the monitor observed too little (evaluations=%d)" % self.evals)
            return 2
        return 0
