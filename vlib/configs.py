"""Option vectors (solver configurations)."""

ENGINES = {
    "cdcl": [],
    "lookahead": [(":pure-lookahead", "true")],
    "lookahead-deep": [(":pure-lookahead", "true"), (":lookahead-score-deep", "true")],
    "picky": [(":picky", "true")],
    "picky-w": [(":picky", "true"), (":picky_w", "3")],
    "ghost": [(":ghost-vars", "true")],
}


def engine_of(options):
    names = {n: v for n, v in options}
    if names.get(":pure-lookahead") == "true":
        return "lookahead"
    if names.get(":ghost-vars") == "true":
        return "ghost"
    if names.get(":picky") == "true":
        return "picky"
    return "cdcl"


def sat_tuning(rng):
    """Random restart / minimisation / heuristic settings (all keep the answer unchanged)."""
    o = []
    if rng.random() < 0.5:
        o.append((":random-seed", str(rng.randint(1, 2**31 - 1))))
    if rng.random() < 0.3:
        o.append((":luby-restart", rng.choice(["0", "1"])))
    if rng.random() < 0.3:
        o.append((":restart-first", str(rng.choice([1, 2, 3, 10, 100]))))
    if rng.random() < 0.2:
        o.append((":restart-inc", str(rng.choice([1, 2, 3]))))
    if rng.random() < 0.3:
        o.append((":ccmin-mode", str(rng.choice([0, 1, 2]))))
    if rng.random() < 0.2:
        o.append((":rnd-pol", "1"))
    if rng.random() < 0.2:
        o.append((":rnd-init-act", "1"))
    if rng.random() < 0.2:
        o.append((":random-var-freq", rng.choice(["0.0", "0.1", "0.5", "1.0"])))
    return o


def simp_tuning(rng):
    o = []
    if rng.random() < 0.3:
        o.append((":asymm", "1"))
    if rng.random() < 0.3:
        o.append((":rcheck", "1"))
    if rng.random() < 0.2:
        o.append((":elim", "0"))
    if rng.random() < 0.3:
        o.append((":grow", str(rng.choice([0, 1, 4, 100]))))
    if rng.random() < 0.2:
        o.append((":cl-lim", str(rng.choice([0, 2, 5, 100]))))
    if rng.random() < 0.2:
        o.append((":sub-lim", str(rng.choice([0, 2, 10, 100000]))))
    return o


def tracking(rng, want=()):
    """Tracking options (models/proofs/cores/interpolants/assignments)."""
    o = []
    for name in (":produce-models", ":produce-proofs", ":produce-unsat-cores",
                 ":produce-interpolants", ":produce-assignments"):
        if name in want or rng.random() < 0.2:
            o.append((name, "true"))
    return o


def random_config(rng, engines=("cdcl", "cdcl", "cdcl", "lookahead", "picky", "ghost"),
                  allow_nonincremental=False, want=(), substitutions=True):
    o = []
    eng = rng.choice(list(engines))
    o += ENGINES[eng]
    o += sat_tuning(rng)
    o += tracking(rng, want)
    if substitutions and rng.random() < 0.25:
        o.append((":do-substitutions", "false"))
    if allow_nonincremental and rng.random() < 0.35:
        o.append((":incremental", "false"))
        o += simp_tuning(rng)
    seen = set()
    out = []
    for n, v in o:
        if n not in seen:
            seen.add(n)
            out.append((n, v))
    return out


def has(options, name, val="true"):
    return any(n == name and v == val for n, v in options)


def config_label(options):
    return " ".join("%s=%s" % (n.lstrip(":"), v) for n, v in options) or "default"
