"""Reference solvers (z3 5.x in-process, cvc5 CLI, z3 4.8 CLI) and the consensus rule.

A *violation* always needs two references agreeing on the deciding fact; anything
else (unknown, timeout, disagreement) is inconclusive.
"""
import os
import subprocess
import tempfile

from . import osmt

_z3 = None
STATS = {"z3new": 0, "cvc5": 0, "z3old": 0, "inconclusive": 0, "disagree": 0}


def _z3mod():
    global _z3
    if _z3 is None:
        import z3
        _z3 = z3
    return _z3


def z3new(text, timeout_ms=3000):
    """sat/unsat/unknown by z3 python binding on a flat script (check-sat lines are ignored)."""
    z3 = _z3mod()
    STATS["z3new"] += 1
    ctx = z3.Context()
    try:
        s = z3.Solver(ctx=ctx)
        s.set("timeout", timeout_ms)
        body = "\n".join(l for l in text.split("\n")
                         if not l.startswith("(check-sat") and not l.startswith("(set-logic"))
        s.from_string(body)
        r = s.check()
        return str(r)
    except z3.Z3Exception as e:
        return "error:" + str(e)[:200]
    finally:
        del ctx


def z3new_model(text, timeout_ms=3000):
    """(result, model-as-smtlib-definitions or None)."""
    z3 = _z3mod()
    ctx = z3.Context()
    try:
        s = z3.Solver(ctx=ctx)
        s.set("timeout", timeout_ms)
        body = "\n".join(l for l in text.split("\n")
                         if not l.startswith("(check-sat") and not l.startswith("(set-logic"))
        s.from_string(body)
        r = s.check()
        if str(r) == "sat":
            return "sat", s.model().sexpr()
        return str(r), None
    except z3.Z3Exception as e:
        return "error:" + str(e)[:200], None


def _cli(cmd, text, timeout_s):
    d = osmt.scratch_dir("refs")
    fd, path = tempfile.mkstemp(suffix=".smt2", dir=d)
    try:
        with os.fdopen(fd, "w") as f:
            f.write(text)
        try:
            p = subprocess.run(cmd + [path], stdout=subprocess.PIPE, stderr=subprocess.PIPE,
                               timeout=timeout_s + 5)
        except subprocess.TimeoutExpired:
            return "unknown"
        out = p.stdout.decode("utf-8", "replace").strip().split("\n")
        first = out[0].strip() if out else ""
        if first in ("sat", "unsat", "unknown"):
            return first
        if "timeout" in first or "interrupted" in first:
            return "unknown"
        return "error:" + (first + " " + p.stderr.decode("utf-8", "replace"))[:200]
    finally:
        try:
            os.remove(path)
        except OSError:
            pass


def cvc5(text, timeout_s=5):
    STATS["cvc5"] += 1
    if "(set-logic" not in text:
        text = "(set-logic ALL)\n" + text
    return _cli(["cvc5", "--lang=smt2", "--tlimit=%d" % (timeout_s * 1000)], text, timeout_s)


def z3old(text, timeout_s=5):
    STATS["z3old"] += 1
    body = "\n".join(l for l in text.split("\n") if not l.startswith("(set-logic"))
    return _cli(["/usr/bin/z3", "-T:%d" % timeout_s], body, timeout_s)


def consensus(text, first=None):
    """'sat' | 'unsat' | 'inconclusive' : two references must agree."""
    r1 = first or z3new(text)
    r2 = cvc5(text)
    if r1 == r2 and r1 in ("sat", "unsat"):
        return r1
    defin = [r for r in (r1, r2) if r in ("sat", "unsat")]
    if len(defin) == 2:          # they disagree
        STATS["disagree"] += 1
        STATS["inconclusive"] += 1
        return "inconclusive"
    if len(defin) == 1:
        r3 = z3old(text)
        if r3 == defin[0] and (r2 == defin[0] or not r2.startswith("error")):
            # z3-old + cvc5, or z3-new + z3-old with cvc5 merely timing out
            return r3
    STATS["inconclusive"] += 1
    return "inconclusive"


def quick(text):
    return z3new(text)


def selftest():
    sat = "(declare-fun x () Int)\n(assert (> x 2))\n(check-sat)\n"
    uns = "(declare-fun x () Int)\n(assert (and (> x 2) (< x 3)))\n(check-sat)\n"
    ok = True
    for f in (z3new, cvc5, z3old):
        a, b = f(sat), f(uns)
        if (a, b) != ("sat", "unsat"):
            ok = False
            print("reference self-test failed:", f.__name__, a, b)
    return ok
